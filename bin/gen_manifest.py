#!/usr/bin/env python3
"""Regenerates MANIFEST.json from the harness modules present (keeps it valid at all times)."""
import json, os, sys, importlib
HERE = os.path.dirname(os.path.dirname(os.path.abspath(__file__)))
sys.path.insert(0, HERE)
props = [json.loads(l) for l in open(os.path.join(HERE, "properties.jsonl"))]
claims = json.load(open(os.path.join(HERE, "claims.json")))
checks, na = [], []
for p in props:
    pid = p["id"]
    c = claims.get(pid)
    if c and c.get("claimed") and os.path.exists(os.path.join(HERE, "harness", pid + ".py")):
        checks.append({
            "property_id": pid,
            "quick_cmd": f"./bin/check {pid} --tier quick",
            "thorough_cmd": f"./bin/check {pid} --tier thorough",
            "evidence_file": f"/verif/evidence/{pid}.json",
            "replay_cmd_template": f"./bin/check {pid} --replay {{path}}",
            "engine": "symx",
            "level_claimed": {"category": "model_checking", "text": c["text"], "design_ref": c.get("design_ref", "DESIGN.md section 6 / " + pid)},
            "level_note": c["note"],
            "technique": c["technique"],
        })
    else:
        na.append({"property_id": pid, "reason": (c or {}).get("reason", "check not built yet (work in progress); no claim is made")})
m = {
    "version": 1,
    "setup_cmd": "./bin/setup",
    "hooks": {
        "guard": "A816_VERIF",
        "enable": "no source hooks are needed: checks load /repo's current working tree through an instrumenting import hook (symx/loader.py); the guard name is reserved and unused",
        "baseline_off_cmd": "cd /repo && /venv/bin/python -m pytest -ra -q -p no:cacheprovider --timeout=900 --continue-on-collection-errors",
        "source_commits": [],
        "add_only": True,
    },
    "engines": [{
        "name": "symx", "path": "/verif/symx",
        "serves_properties": [c["property_id"] for c in checks],
        "kind_free_text": "shadow-value symbolic executor for Python: /repo modules are AST-instrumented at import and run natively on z3-backed ints/strings/bytes; DFS path exploration by re-execution; z3 decides every branch and every assertion; counterexamples replayed on the un-instrumented code",
    }],
    "checks": checks,
    "not_applicable": na,
    "notes": "Solver-based checking of the real code; see DESIGN.md. Exit 0 = held on everything explored, 1 = VIOLATION (replayed), 2 = inconclusive (never a pass). Known findings: known_findings.json.",
}
json.dump(m, open(os.path.join(HERE, "MANIFEST.json"), "w"), indent=1)
print("checks:", [c["property_id"] for c in checks], "na:", len(na))
