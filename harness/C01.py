"""C01 -- accepted instructions encode exactly as the 65c816 ISA defines.

Symbolic: operand value v in [0,2^32).  Enumerated (finite, complete): every mnemonic of the
tree's table and of the ISA x operand shape (well-formed and malformed) x size suffix x letter
case; shape and suffix are symbolic choices so one job covers a whole mnemonic.
The whole pipeline scanner -> parser -> codegen -> label pass -> emission runs on the shadow int."""
import ast
import json
import os

import z3

from harness.common import B, assemble, blist, eq_bytes, le_bytes
from oracles.isa65816 import BLOCK_MOVES, BRANCHES, ISA, LONG_BRANCHES, MNEMONICS
from symx import bv

PROPERTY = "C01"

HERE = os.path.dirname(os.path.dirname(os.path.abspath(__file__)))
SUPPORTED = {tuple(x) for x in json.load(open(os.path.join(HERE, "oracles", "supported_set.json")))}

# (name, operand text, ISA shape or None when malformed, value expression over v)
SHAPES = [
    ("imp", "", "imp", None),
    ("imm", "#v", "imm", "v"),
    ("dir", "v", "dir", "v"),
    ("dir,x", "v,x", "dir,x", "v"),
    ("dir,y", "v,y", "dir,y", "v"),
    ("dir,s", "v,s", "dir,s", "v"),
    ("(dir)", "(v)", "(dir)", "v"),
    ("(dir),y", "(v),y", "(dir),y", "v"),
    ("[dir]", "[v]", "[dir]", "v"),
    ("[dir],y", "[v],y", "[dir],y", "v"),
    ("(dir,x)", "(v,x)", "(dir,x)", "v"),
    ("(dir,s),y", "(v,s),y", "(dir,s),y", "v"),
    # malformed index combinations: no 65c816 addressing mode is written this way
    ("(dir,x),y", "(v,x),y", None, "v"),
    ("(dir,y)", "(v,y)", None, "v"),
    ("(dir,s)", "(v,s)", None, "v"),
    ("(dir,y),y", "(v,y),y", None, "v"),
    ("(dir,s),x", "(v,s),x", None, "v"),
    ("[dir],x", "[v],x", None, "v"),
    ("(dir),x", "(v),x", None, "v"),
    ("[dir,x]", "[v,x]", None, "v"),
    ("imm,x", "#v,x", None, "v"),
    ("(dir),s", "(v),s", None, "v"),
    # operand expressions
    ("dir:v+1", "v+1", "dir", "v+1"),
    ("dir:(v)+1", "(v)+1", "dir", "v+1"),
    ("dir:v<<8", "v<<8", "dir", "v<<8"),
    ("imm:v+1", "#v+1", "imm", "v+1"),
    ("(dir),y:v+1", "(v+1),y", "(dir),y", "v+1"),
    ("dir,x:v*2", "v*2,x", "dir,x", "v*2"),
    # indirect operands whose expression itself contains a parenthesised group
    ("(dir):((v)+1)", "((v)+1)", "(dir)", "v+1"),
    ("(dir):((v))", "((v))", "(dir)", "v"),
    ("(dir),y:((v)+1)", "((v)+1),y", "(dir),y", "v+1"),
    ("(dir,x):((v)*2,x)", "((v)*2,x)", "(dir,x)", "v*2"),
    ("[dir]:[(v)+1]", "[(v)+1]", "[dir]", "v+1"),
    ("(dir):(1+(v))", "(1+(v))", "(dir)", "v+1"),
]
SUFFIXES = ["", ".b", ".w", ".l"]

META = {
    "bounds": {
        "quick": "one instruction per program; operand v in [0,2^32) symbolic; all mnemonics (tree table + ISA) x 34 operand shapes x 4 suffixes; lower case everywhere + upper case for every mnemonic; 6 mnemonics with the operand written as a literal (hex 1-6 digits incl. leading zeros, decimal 1-5, binary 1/8/9 digits, all digits symbolic) x 15 well-formed shapes x 4 suffixes",
        "thorough": "same + mixed case variants (upper mnemonic only, upper suffix only, upper index only)",
    },
    "outside": [
        "negative operands", "operands >= 2^24 without a suffix and >= 2^24 with .l (statement silent: any behaviour accepted)",
        "relative branches with a plain operand (C05)", "mvn/mvp two-operand forms", "more than one instruction per program",
    ],
    "oracle": "oracles/isa65816.py: hand-written 65c816 opcode matrix (all 256 opcodes accounted for) + oracles/supported_set.json (the 220 (mnemonic, shape, width) triples accepted at the pinned commit that the ISA defines)",
    "stubs": ["logging output discarded"],
    "assumptions": [],
}

OPTS = {"quick": {"deadline_s": 600}, "thorough": {"deadline_s": 1500}}


def table_mnemonics():
    """Mnemonics of the tree's opcode table, read from the source (no import)."""
    path = os.path.join(os.environ.get("A816_REPO", "/repo"), "a816/cpu/cpu_65c816.py")
    tree = ast.parse(open(path, encoding="utf-8").read(), path)
    out = set()
    for n in ast.walk(tree):
        tgt = None
        if isinstance(n, ast.AnnAssign) and isinstance(n.target, ast.Name):
            tgt, val = n.target.id, n.value
        elif isinstance(n, ast.Assign) and len(n.targets) == 1 and isinstance(n.targets[0], ast.Name):
            tgt, val = n.targets[0].id, n.value
        if tgt == "snes_opcode_table" and isinstance(val, ast.Dict):
            for k in val.keys:
                if isinstance(k, ast.Constant) and isinstance(k.value, str):
                    out.add(k.value)
    return out


CONTEXT_WRAPPERS = {
    "block": ("{", "}"),
    "scope": (".scope ns {", "}"),
    "macro": (".macro mm() {", "}\nmm()"),
    "loop": (".for i := 0, 1 {", "}"),
}
CONTEXT_OUTER = {"assign": "name := v", "label": "name:\n.db 0xEE", "symbol-param": None}
CONTEXT_MNS = [("lda", {1: 0xA5, 2: 0xAD, 3: 0xAF}), ("sta", {1: 0x85, 2: 0x8D, 3: 0x8F}), ("jmp", {2: 0x4C, 3: 0x5C})]


def context_source(spec):
    """An instruction whose operand name is defined outside AND re-defined as a label later in the
    enclosing inner scope: the operand is the inner label, so its width must hold that address."""
    open_, close = CONTEXT_WRAPPERS[spec["wrapper"]]
    outer = CONTEXT_OUTER[spec["outer"]]
    lines = ["*=0x8000"]
    if outer:
        lines.append(outer)
    lines += [open_, f"{spec['mn']} name"]
    if spec["order"] == "label-after":
        lines += ["nop", "name:", ".db 0xEF", close]
    else:
        lines = lines[:-1] + ["name:", ".db 0xEF", f"{spec['mn']} name", close]
    return "\n".join(lines) + "\n"


def jobs(tier, seed):
    mns = sorted(set(MNEMONICS) | table_mnemonics())
    ctx = []
    for w in CONTEXT_WRAPPERS:
        for o in ("assign", "label"):
            for order in ("label-after", "label-before"):
                for mn, _ in CONTEXT_MNS:
                    ctx.append({"id": f"context/{w}/{o}/{order}/{mn}", "fam": "context", "wrapper": w, "outer": o, "order": order, "mn": mn})
    # the operand written as a literal in the instruction: every hex literal of 1-6 digits (leading zeros included),
    # decimal of 1-5 digits, binary of 1-9 digits -- the width follows the VALUE, not the spelling
    lit = []
    for mn in ("lda", "sta", "jmp", "ldx", "rep", "cmp"):
        for base, lens in (("hex", range(1, 7)), ("dec", range(1, 6)), ("bin", (1, 8, 9))):
            for n in lens:
                lit.append({"id": f"literal/{mn}/{base}{n}", "mn": mn, "case": "lower", "fam": "literal", "base": base, "n": n})
    return ctx + lit + _instruction_jobs(tier, seed, mns)


def _instruction_jobs(tier, seed, mns):
    cases = ["lower", "upper"]
    if tier == "thorough":
        cases += ["upper-mnemonic", "upper-suffix", "upper-index"]
    out = []
    for mn in mns:
        for case in cases:
            out.append({"id": f"{mn}/{case}", "mn": mn, "case": case})
    return out


def _pick(x):
    return x.pick() if hasattr(x, "pick") else x


def source(mn, shape_i, suffix, case):
    name, text, isa_shape, _ = SHAPES[shape_i]
    if case in ("upper", "upper-mnemonic"):
        mn = mn.upper()
    if case in ("upper", "upper-suffix"):
        suffix = suffix.upper()
    if case in ("upper", "upper-index"):
        for idx in "xys":
            text = text.replace("," + idx, "," + idx.upper())
    return f"*=0x8000\n{mn}{suffix} {text}".rstrip(" ") + "\n"


def run(spec, cx):
    if spec.get("fam") == "context":
        v = cx.int("v", 0, 0xFFFFFF)
        r = assemble(context_source(spec), {"v": v})
        if r[0] == "ok":
            return ("ok", [(a, b) for a, b in r[1]])
        return ("rejected", "error-string" if r[0] == "error" else type(r[1]).__name__)
    if spec.get("fam") == "literal":
        lit_shapes = [i for i, sh in enumerate(SHAPES) if sh[3] == "v" and sh[2] is not None]
        shape_i = _pick(cx.choice("shape", lit_shapes))
        suffix = _pick(cx.choice("suffix", SUFFIXES))
        doms = {"hex": sorted(ord(c) for c in "0123456789abcdefABCDEF"), "dec": list(range(0x30, 0x3A)), "bin": [0x30, 0x31]}[spec["base"]]
        digits = []
        for i in range(spec["n"]):
            dom = doms if not (spec["base"] == "dec" and i == 0 and spec["n"] > 1) else doms[1:]     # no leading zero in decimal
            digits.append(cx.char(f"d{i}", dom))
        text = source(spec["mn"], shape_i, suffix, spec["case"])
        k = text.index("v", text.index("\n") + 1 + len(spec["mn"]))
        prefix = {"hex": "0x", "dec": "", "bin": "0b"}[spec["base"]]
        src = cx.string([ord(c) for c in text[:k] + prefix] + digits + [ord(c) for c in text[k + 1:]])
        r = assemble(src, {})
    else:
        shape_i = _pick(cx.choice("shape", list(range(len(SHAPES)))))
        suffix = _pick(cx.choice("suffix", SUFFIXES))
        v = cx.int("v", 0, 0xFFFFFFFF)
        src = source(spec["mn"], shape_i, suffix, spec["case"])
        r = assemble(src, {"v": v})
    if r[0] == "ok":
        return ("ok", shape_i, suffix, [(a, b) for a, b in r[1]])
    if r[0] == "error":
        return ("rejected", shape_i, suffix, "error-string")
    return ("rejected", shape_i, suffix, type(r[1]).__name__)


def _value(expr, v):
    return {"v": v, "v+1": v + 1, "v<<8": v << 8, "v*2": v * 2}[expr]


def _literal_value(spec, cx):
    base = {"hex": 16, "dec": 10, "bin": 2}[spec["base"]]
    val = B(0)
    for i in range(spec["n"]):
        c = z3.ZeroExt(56, cx.t(f"d{i}"))
        dig = z3.If(c <= 0x39, c - 0x30, z3.If(c >= 0x61, c - 0x57, c - 0x37))
        val = val * base + dig
    return val


def check_context(spec, cx, out):
    """Accepted => the instruction is [opcode of the width that holds the inner label's address]
    + that address; the only consistent layout puts the label where that width leaves it."""
    if out[0] != "ok":
        # the width inferred while labels are resolved cannot agree with the final operand: failing is right
        return [("context-may-be-rejected", z3.BoolVal(True))]
    blocks = out[1]
    if len(blocks) != 1:
        return [("context-single-block", z3.BoolVal(False))]
    bs = blist(blocks[0][1])
    ops = dict(CONTEXT_MNS)[spec["mn"]]
    pre = 1 if spec["outer"] == "label" else 0       # the outer label's marker byte
    alts = []
    for w, op in ops.items():
        if spec["order"] == "label-after":
            addr = 0x8000 + pre + 1 + w + 1              # instruction, nop, then the label
            exp = ([0xEE] if pre else []) + [op] + [(addr >> (8 * k)) & 0xFF for k in range(w)] + [0xEA, 0xEF]
        else:
            addr = 0x8000 + pre                           # label first
            exp = ([0xEE] if pre else []) + [0xEF, op] + [(addr >> (8 * k)) & 0xFF for k in range(w)]
        holds = addr < (1 << (8 * w)) and (w == min(ops) or addr >= (1 << (8 * (w - 1))))
        if holds and len(exp) == len(bs):
            alts.append(z3.And(*[x == y for x, y in zip(bs, exp)]))
    return [("operand-width-holds-the-value-it-encodes", z3.Or(*alts) if alts else z3.BoolVal(False))]


def check(spec, cx, out):
    if spec.get("fam") == "context":
        return check_context(spec, cx, out)
    mn = spec["mn"]
    kind, shape_i, suffix = out[0], out[1], out[2]
    name, text, isa_shape, vexpr = SHAPES[shape_i]
    v = _literal_value(spec, cx) if spec.get("fam") == "literal" else cx.t("v")
    res = []
    if mn in BRANCHES and isa_shape == "dir":
        return [("branch-operand-left-to-C05", z3.BoolVal(True))]
    if isa_shape == "imp":
        key = (mn, "imp", 0)
        defined = suffix == "" and key in ISA
        if kind == "ok":
            blocks = out[3]
            good = defined and len(blocks) == 1
            res.append(("undefined-combination-rejected" if not defined else "implied-encoding",
                        z3.And(z3.BoolVal(good), eq_bytes(blocks[0][1], [B(ISA[key])]) if good else z3.BoolVal(False), bv(blocks[0][0]) == 0 if good else z3.BoolVal(False))))
        else:
            res.append(("supported-combination-keeps-assembling", z3.BoolVal(not (defined and key in SUPPORTED))))
        return res
    e = _value(vexpr, v)
    if suffix:
        wterm = B({".b": 1, ".w": 2, ".l": 3}[suffix])
        in_claim = z3.BoolVal(True)
    else:
        wterm = z3.If(e < 0x100, B(1), z3.If(e < 0x10000, B(2), B(3)))
        in_claim = e < 0x1000000  # the smallest of 1,2,3 bytes that holds e exists
    conds = []
    for w in (1, 2, 3):
        key = (mn, isa_shape, w) if isa_shape else None
        defined = key in ISA if key else False
        here = wterm == w
        if kind == "ok":
            blocks = out[3]
            if defined and len(blocks) == 1:
                enc = z3.And(bv(blocks[0][0]) == 0, eq_bytes(blocks[0][1], [B(ISA[key])] + le_bytes(e, w)))
            else:
                enc = z3.BoolVal(False)
            conds.append(z3.Implies(z3.And(in_claim, here), enc))
        else:
            must_accept = defined and key in SUPPORTED
            if must_accept:
                fits = e < (1 << (8 * w))
                conds.append(z3.Not(z3.And(in_claim, here, fits)))
    if kind == "ok":
        res.append(("accepted-implies-isa-encoding", z3.And(*conds)))
    else:
        res.append(("supported-combination-keeps-assembling", z3.And(*conds) if conds else z3.BoolVal(True)))
    return res
