"""C02 -- every label equals the address where the next byte is really emitted.

Symbolic: start address p0 (any in-window ROM address, so bank crossings are included), *= / @=
operands, the constants that drive inferred operand widths, .incbin length (blob).
Enumerated: program skeletons (statement kinds between labels, wrappers, name reuse).

Observation uses the public output only: every label is followed by a one-byte marker whose
value is a symbolic tag and by `.dl label`; every *= / @= is followed by a marker too.  The markers are
found in the real output by their tag variable (symbolic run) or by assembling a second time with
complemented tags (concrete replay); no knowledge of statement sizes is needed.  A label must equal the
run address of its marker byte = address of the segment start advanced by the distance between
the two markers in the file (textbook advance formula)."""
import itertools
import random

import z3

from harness.common import RecWriter, blist, new_program, virtual_files
from oracles import layout as L
from symx import bv

PROPERTY = "C02"

META = {
    "bounds": {
        "quick": "programs `*= p0; c0 := V0; back: ...`: every single item and every pair starting with {inferred constant, inferred label, .incbin, *=, @= RAM, @= ROM} over 17 item kinds (LoROM; singles under HiROM) (inferred-width instructions from a := constant / backward label / macro parameter / loop variable, explicit sizes, data, .ascii, .text, .incbin of symbolic length < 0x120, *= and @= moves into ROM and RAM), each item followed by a label; 6 wrappers; 10 name-reuse patterns + 2 table-reload patterns (.text before a table its own scope / macro body loads later, code lengths differ); LoROM and HiROM; p0, move operands, V0 (24 bit) symbolic",
        "thorough": "all pairs, triples over the width-/position-relevant kinds + VERIF_SEED-drawn 150 programs of 4-5 items inside nested wrappers",
    },
    "outside": ["programs that leave the mapped ROM range", "forward references with inferred width (rejected by design)", ".incbin longer than the bound", "duplicate definitions in one scope"],
    "oracle": "marker positions from the real output (two-run differential) + textbook advance formula (oracles/layout.py); label values read from `.dl label` bytes and Resolver.get_all_labels()",
    "stubs": ["open(): virtual files for .incbin / .table"],
    "assumptions": [],
}

OPTS = {"quick": {"deadline_s": 400}, "thorough": {"deadline_s": 1200}}

# item kinds ------------------------------------------------------------------------------------
SIMPLE = {
    "inf-const": "lda c0",
    "inf-const-x": "adc c0,x",
    "inf-back": "lda back",
    "inf-expr": "cmp c0 >> 1",
    "imm-w": "lda.w #c0",
    "abs-l": "sta.l c0",
    "dw": ".dw c0",
    "dl-fwd": ".dl fin",
    "ascii": ".ascii 'abc'",
    "ascii-any": ".ascii 'a?c'",
    "text": ".text 'ab'",
    "incbin": ".incbin 'f.bin'",
    "jmp-fwd": "jmp.l fin",
    "nop": "nop",
    "ptr": ".pointer back, c0",
}
MOVES = ["star", "at-rom", "at-ram"]
ITEMS = list(SIMPLE) + MOVES


class Builder:
    """Builds the source for tag set 'a' / 'b' and the expected marker sequence."""

    def __init__(self):
        self.lines = []
        self.markers = []   # emission order: ("seg", hole, kind) | ("label", name, in_loop)
        self.ntag = 0
        self.nlab = 0
        self.npos = 0
        self.holes = []     # position holes (name, kind)
        self.tags = []

    def tag(self):
        self.ntag += 1
        t = f"T{self.ntag - 1}"
        self.tags.append(t)
        return t

    def label(self, name=None):
        if name is None:
            self.nlab += 1
            name = f"l{self.nlab - 1}"
        t = self.tag()
        return [("line", f"{name}:"), ("mark", t, ("label", name)), ("line", f".dl {name}")]

    def move(self, kind):
        self.npos += 1
        h = f"q{self.npos}"
        k = "rom" if kind in ("star", "at-rom") else "ram"
        self.holes.append((h, k))
        t = self.tag()
        op = "*=" if kind == "star" else "@="
        return [("line", f"{op} {h}"), ("mark", t, ("seg", h, k, "star" if kind == "star" else "at"))]

    def item(self, kind):
        if kind in MOVES:
            return self.move(kind)
        return [("line", SIMPLE[kind])]


def wrap(kind, body):
    if kind == "block":
        return [("line", "{")] + body + [("line", "}")]
    if kind == "scope":
        return [("line", ".scope ns {")] + body + [("line", "}")]
    if kind == "macro":
        return [("macrodef", "mm", ["mp"], body), ("apply", "mm", "c0")]
    if kind == "macro2":
        return [("macrodef", "mm", ["mp"], body), ("apply", "mm", "c0"), ("line", ".db 1"), ("apply", "mm", "c0 >> 4")]
    if kind == "for":
        return [("loop", 2, body)]
    if kind == "if":
        return [("line", ".if 1 {")] + body + [("line", "} else {"), ("line", "nop"), ("line", "}")]
    raise ValueError(kind)


def program(spec):
    """Returns (builder, structured statements)."""
    b = Builder()
    t0 = b.tag()
    stmts = [("line", "*= p0"), ("mark", t0, ("seg", "p0", "rom", "star")), ("line", "c0 := V0"), ("line", ".table 't.tbl'")]
    stmts += b.label("back")
    kind = spec["kind"]
    if kind == "seq":
        body = []
        for it in spec["items"]:
            body += b.item(it) + b.label()
        if spec.get("wrapper"):
            w = spec["wrapper"]
            if w in ("macro", "macro2"):
                # inside the macro the inferred-width operand is the macro parameter
                body = [("line", x[1].replace("c0", "mp")) if x[0] == "line" and x[1].startswith(("lda c0", "adc c0", "cmp c0")) else x for x in body]
            if w == "for":
                body = [("line", "lda i"), ] + body
            stmts += wrap(w, body) + b.label()
        else:
            stmts += body
    elif kind == "reuse":
        stmts += REUSE[spec["pattern"]](b)
    else:
        raise ValueError(kind)
    stmts += b.label("fin")
    return b, stmts


# name-reuse patterns: the constant's name re-defined as a label / symbol in an inner scope ----------
def _reuse_label_after(b):
    return [("line", "{"), ("line", "lda c0")] + b.label("c0") + [("line", "}")] + b.label()


def _reuse_label_before(b):
    return [("line", "{")] + b.label("c0") + [("line", "lda c0")] + b.label() + [("line", "}")] + b.label()


def _reuse_in_scope(b):
    return [("line", ".scope ns {"), ("line", "adc c0,x")] + b.label("c0") + [("line", "}"), ("line", "lda c0")] + b.label()


def _reuse_in_loop(b):
    return [("loop", 2, [("line", "lda c0")] + b.label("c0"))] + b.label()


def _reuse_in_macro(b):
    return [("macrodef", "mm", ["mp"], [("line", "lda c0")] + b.label("c0") + [("line", "lda mp")]), ("apply", "mm", "c0")] + b.label()


def _reuse_symbol(b):
    return [("line", "{"), ("line", "c0 = 0x123456"), ("line", "lda c0")] + b.label() + [("line", "}")] + b.label()


def _reuse_assign(b):
    return [("line", "{"), ("line", "lda c0"), ("line", "c0 := 0x12")] + b.label() + [("line", "lda c0")] + b.label() + [("line", "}")]


def _sibling_labels(b):
    return [("line", "{")] + b.label("same") + [("line", "lda same"), ("line", "}"), ("line", "{"), ("line", "lda c0")] + b.label("same") + [("line", "lda same"), ("line", "}")] + b.label()


def _nested_shadow(b):
    return [("line", "{"), ("line", "{"), ("line", "lda c0"), ("line", "}")] + b.label("c0") + [("line", "}")] + b.label()


def _macro_param_shadow(b):
    return [("macrodef", "mm", ["back"], [("line", "lda back")] + b.label()), ("apply", "mm", "c0"), ("apply", "mm", "0x12")] + b.label()


def _text_before_inner_table(b):
    # .text ahead of a table that its own scope loads later: sized and emitted with the enclosing scope's table
    return ([("line", "{"), ("line", ".text 'ab'")] + b.label() + [("line", ".table 'u.tbl'"), ("line", ".text 'ab'")] + b.label() + [("line", "{"), ("line", ".text 'ba'")] + b.label()
            + [("line", "}"), ("line", "}"), ("line", ".text 'ab'")] + b.label())


def _text_in_macro_loading_table(b):
    return [("macrodef", "mm", ["mp"], [("line", ".text 'ab'")] + b.label() + [("line", ".table 'u.tbl'"), ("line", ".text 'ab'"), ("line", "lda mp")] + b.label()), ("apply", "mm", "c0"), ("line", ".text 'ab'"), ("apply", "mm", "0x12")] + b.label()


REUSE = {
    "text-before-inner-table": _text_before_inner_table, "text-in-macro-loading-table": _text_in_macro_loading_table,
    "label-after-use": _reuse_label_after, "label-before-use": _reuse_label_before, "in-named-scope": _reuse_in_scope,
    "in-loop": _reuse_in_loop, "in-macro": _reuse_in_macro, "symbol-shadow": _reuse_symbol, "assign-shadow": _reuse_assign,
    "sibling-labels": _sibling_labels, "nested-shadow": _nested_shadow, "macro-param-shadow": _macro_param_shadow,
}


def render(stmts, tagset, ind=""):
    """Text with '?' placeholders (symbolic source characters) left in place; see source_chars."""
    out = []
    for st in stmts:
        k = st[0]
        if k == "line":
            out.append(ind + st[1])
        elif k == "mark":
            out.append(f"{ind}.db {st[1]}{tagset}")
        elif k == "macrodef":
            out.append(f"{ind}.macro {st[1]}({', '.join(st[2])}) {{")
            out.append(render(st[3], tagset, ind + "  "))
            out.append(f"{ind}}}")
        elif k == "apply":
            out.append(f"{ind}{st[1]}({st[2]})")
        elif k == "loop":
            out.append(f"{ind}.for i := 0, {st[1]} {{")
            out.append(render(st[2], tagset, ind + "  "))
            out.append(f"{ind}}}")
        else:
            raise ValueError(st)
    return "\n".join(out)


def marker_sequence(stmts, macros=None, in_loop=False):
    """Markers in emission order: (info, in_loop)."""
    macros = {} if macros is None else macros
    out = []
    for st in stmts:
        k = st[0]
        if k == "mark":
            out.append((st[2], in_loop))
        elif k == "macrodef":
            macros[st[1]] = st[3]
        elif k == "apply":
            out += marker_sequence(macros[st[1]], macros, in_loop)
        elif k == "loop":
            for _ in range(st[1]):
                out += marker_sequence(st[2], macros, True)
    return out


def jobs(tier, seed):
    out = []
    n = 2 if tier == "quick" else 3
    seqs = []
    for k in range(1, n + 1):
        seqs += list(itertools.product(ITEMS, repeat=k))
    interesting = {"inf-const", "inf-const-x", "inf-back", "inf-expr", "incbin", "text", "star", "at-rom", "at-ram"}
    if tier == "quick":
        first = {"inf-const", "inf-back", "incbin", "star", "at-ram", "at-rom", "ascii-any"}
        seqs = [s for s in seqs if len(s) == 1 or (s[0] in first and s[1] != s[0])]
    else:
        first3 = {"inf-const", "inf-back", "incbin", "star", "at-ram"}
        seqs = [s for s in seqs if len(s) < 3 or (len(set(s)) == 3 and s[0] in first3 and s[1] in first3 and s[2] in first3)]
    seqs = seqs + [("incbin", "incbin"), ("incbin", "nop", "incbin")]      # the same file included again in one scope
    for rom in ("low", "high"):
        for s in seqs:
            if rom == "high" and len(s) > 1 and (tier == "quick" or not (set(s) & set(MOVES) or "incbin" in s or "inf-back" in s)):
                continue
            out.append({"id": f"{rom}/seq/{'+'.join(s)}", "rom": rom, "kind": "seq", "items": list(s)})
        for w in ("block", "scope", "macro", "macro2", "for", "if"):
            bodies = (["inf-const"], ["inf-const", "at-ram"], ["incbin", "inf-back"], ["star", "inf-const-x"])
            if tier == "quick":
                bodies = bodies[1:3] if rom == "low" else bodies[:1]
            for body in bodies:
                out.append({"id": f"{rom}/{w}/{'+'.join(body)}", "rom": rom, "kind": "seq", "items": body, "wrapper": w})
        for pat in REUSE:
            out.append({"id": f"{rom}/reuse/{pat}", "rom": rom, "kind": "reuse", "pattern": pat})
    if tier == "thorough":
        rnd = random.Random(seed * 401 + 9)
        for k in range(150):
            items = [rnd.choice(ITEMS) for _ in range(rnd.randint(4, 5))]
            out.append({"id": f"rand/{k:03d}", "rom": rnd.choice(["low", "high"]), "kind": "seq", "items": items, "wrapper": rnd.choice([None, "block", "scope", "macro2", "for", "if"])})
    return out


def _asm(src, syms, rom, cx, files):
    p = new_program(rom, syms)
    w = RecWriter()
    with virtual_files(cx, files):
        try:
            err = p.assemble_string_with_emitter(src, "m.s", w)
        except Exception as e:  # noqa: BLE001
            return ("rejected", type(e).__name__)
    if err is not None:
        return ("rejected", "error-string")
    return ("ok", w.blocks, p.resolver.get_all_labels())


def run(spec, cx):
    g = L.GEOMS[spec["rom"]]
    b, stmts = program(spec)
    syms = {"p0": cx.int("p0", 0, 0xFFFFFF), "V0": cx.int("V0", 0, 0xFFFFFF)}
    p0 = cx.t("p0")
    cx.assume(z3.And(L.in_window(g, p0), L.offset(g, p0) + 0x800 < L.run_size(g, p0)))
    for h, k in b.holes:
        syms[h] = cx.int(h, 0, 0xFFFFFF)
        t = cx.t(h)
        if k == "rom":
            cx.assume(z3.And(L.in_window(g, t), L.offset(g, t) + 0x800 < L.run_size(g, t)))
        else:
            cx.assume(z3.And(L.is_ram(g, t), (t & 0xFFFF) <= 0xF000))
    sa, sb = dict(syms), dict(syms)
    for t in b.tags:
        sa[t + "a"] = cx.int(t + "a", 0, 255)
        if not cx.symbolic:
            sb[t + "b"] = sa[t + "a"] ^ 0xFF
    uses_bin = any(st[0] == "line" and "incbin" in st[1] for st in _flat(stmts))
    files = {"t.tbl": "41=a\n4243=b\n", "u.tbl": "515253=a\n54=b\n"}
    if uses_bin:
        n = cx.int("n", 0, 0x11F)
        files["f.bin"] = cx.blob("f.bin", n)
    ra = _asm(source_chars(cx, render(stmts, "a") + "\n"), sa, spec["rom"], cx, files)
    if not cx.symbolic:
        # concrete mode (cross-check / replay): markers are located by assembling a second time
        # with complemented tag values; symbolic mode recognises them by their tag variable
        cx.aux = _asm(source_chars(cx, render(stmts, "b") + "\n", declare=False), sb, spec["rom"], cx, files)
    return ra


def source_chars(cx, text, declare=True):
    """Replace every '?' of the source by a symbolic character (anything but quote, backslash, newline)."""
    if "?" not in text:
        return text
    dom = [c for c in range(256) if c not in (10, 0x27, 0x5C)]
    chars, k = [], 0
    for ch in text:
        if ch == "?":
            if declare:
                chars.append(cx.char(f"s{k}", dom))
            else:
                chars.append(cx.values[f"s{k}"])
            k += 1
        else:
            chars.append(ord(ch))
    return cx.string(chars)


def _flat(stmts):
    for st in stmts:
        yield st
        if st[0] == "macrodef":
            yield from _flat(st[3])
        elif st[0] == "loop":
            yield from _flat(st[2])


def _atoms(block):
    """Flatten a block into a list of per-byte entries for literal bytes and ('blob', len) entries."""
    from harness.common import segs_of

    out = []
    for s in segs_of(block):
        if s[0] == "b":
            out += [("b", t) for t in s[1]]
        else:
            out.append(("blob", s[3]))
    return out


def check(spec, cx, out):
    g = L.GEOMS[spec["rom"]]
    ra = out
    b, stmts = program(spec)
    if ra[0] != "ok":
        if spec["kind"] == "reuse":
            # a name re-defined in an inner scope: when the operand width inferred while labels are
            # resolved cannot agree with the emitted one, failing is the required behaviour
            return [("fails-instead-of-shifting", z3.BoolVal(True))]
        return [("program-assembles", z3.BoolVal(False))]
    blocks_a = ra[1]
    found = []   # (block index, storage offset term of the marker, [3 following byte terms] or None)
    if cx.symbolic:
        from symx.core import vars_of

        tagvars = {}
        for t in b.tags:
            for vid in vars_of(cx.t(t + "a")):
                tagvars[vid] = t

        def is_marker(i, term, other):
            vs = vars_of(term)
            return len(vs) == 1 and next(iter(vs)) in tagvars

        blocks_b = blocks_a
    else:
        rb = getattr(cx, "aux", None)
        if rb is None or rb[0] != "ok" or len(rb[1]) != len(blocks_a):
            return [("layout-independent-of-marker-values", z3.BoolVal(False))]
        blocks_b = rb[1]

        def is_marker(i, term, other):
            return not z3.simplify(term).eq(z3.simplify(other))

    for bi, ((aa, da), (ab, db)) in enumerate(zip(blocks_a, blocks_b)):
        xa, xb = _atoms(da), _atoms(db)
        if len(xa) != len(xb):
            return [("layout-independent-of-marker-values", z3.BoolVal(False))]
        pos = bv(aa)
        for i, (ea, eb) in enumerate(zip(xa, xb)):
            if ea[0] == "blob":
                pos = pos + ea[1]
                continue
            if is_marker(i, ea[1], eb[1]):
                nxt = [e[1] for e in xa[i + 1: i + 4] if e[0] == "b"]
                found.append((bi, pos, nxt if len(nxt) == 3 else None))
            pos = pos + 1
    expected = marker_sequence(stmts)
    if len(found) != len(expected):
        return [("one-marker-per-label-and-move", z3.BoolVal(False))]
    res, conds, label_terms, placed = [], [], [], []
    seg = None
    pre = []
    for (bi, spos, nxt), (info, in_loop) in zip(found, expected):
        if info[0] == "seg":
            seg = (cx.t(info[1]), spos, info[2])
            if info[3] == "star":
                # the byte after `*= q` is placed at the file offset the mapping gives to q
                placed.append(spos == L.offset(g, cx.t(info[1])))
            continue
        run0, s0, kind = seg
        delta = spos - s0
        if kind == "rom":
            want = L.advance(g, run0, delta)
            pre.append(L.offset(g, run0) + delta < L.run_size(g, run0))
        else:
            want = run0 + delta
        if nxt is None:
            conds.append(z3.BoolVal(False))
            continue
        got = nxt[0] | (nxt[1] << 8) | (nxt[2] << 16)
        conds.append(got == (want & 0xFFFFFF))
        if not in_loop:
            label_terms.append((info[1], want))
    ok_pre = z3.And(*pre) if pre else z3.BoolVal(True)
    res.append(("byte-after-star-eq-placed-at-mapped-offset", z3.And(*placed) if placed else z3.BoolVal(True)))
    res.append(("label-equals-address-of-next-emitted-byte", z3.Implies(ok_pre, z3.And(*conds) if conds else z3.BoolVal(True))))
    # Resolver.get_all_labels(): every reported label matches a marker of that name
    lc = []
    for name, value in ra[2]:
        alts = [bv(value) == want for (n2, want) in label_terms if n2 == name]
        if not alts:
            if name == "f_bin":
                continue
            lc.append(z3.BoolVal(False))
        else:
            lc.append(z3.Or(*alts))
    res.append(("get_all_labels-agrees", z3.Implies(ok_pre, z3.And(*lc) if lc else z3.BoolVal(True))))
    return res
