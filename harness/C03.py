"""C03 -- output holds exactly the emitted bytes at their mapped ROM offsets.

Symbolic: every *= / @= operand (any in-window ROM address of the mapping, any RAM address) and
every data / operand value.  Enumerated: statement sequences and wrappers (skeletons) x mapping.
Oracle: reference layout model walking the skeleton (oracles/layout.py)."""
import itertools
import random

import z3

from harness import skel as SK
from harness.common import assemble, blist
from oracles import layout as L
from symx import bv

PROPERTY = "C03"

META = {
    "bounds": {
        "quick": "programs `*= p0; .db v0; <sequence>`: all sequences of <= 2 statements over {db,dw,dl,pointer,lda.w #,sta.l,nop,.ascii,.incbin,label,*= rom,@= rom,@= ram,*= ram}, all sequences of 3 over {dw,*= rom,@= rom,@= ram,label}, 9 wrappers (block, named scope, macro application, 2-iteration loop, if/else, `*= hole + i * stride` in a 3-iteration loop, `*= param + 1` in a macro applied 3 times, both combined) x 3 bodies; LoROM and HiROM, a `.map` user mapping for the short sequences; every position operand and value symbolic",
        "thorough": "all sequences of <= 3 statements over the full alphabet + VERIF_SEED-drawn 300 sequences of 4-6 statements with nested wrappers; three mappings",
    },
    "outside": ["instructions with inferred width (C01/C02)", ".include_ips (C13)", "programs that leave the mapped ROM range (assembly may be rejected)", "*= operands below the bank window"],
    "oracle": "oracles/layout.py: textbook offset / advance formulas applied along the skeleton; expected (offset, bytes) block list",
    "stubs": ["recording Writer"],
    "assumptions": [],
}

OPTS = {"quick": {"deadline_s": 300}, "thorough": {"deadline_s": 900}}

ALPHA = ["db", "dw", "dl", "ptr", "imm", "stal", "nop", "ascii", "incbin", "label", "star", "at-rom", "at-ram", "star-ram"]
BIN = [0x10, 0x20, 0x30, 0x40, 0x50]
REDUCED = ["dw", "star", "at-rom", "at-ram", "label"]


class Namer:
    def __init__(self):
        self.v = 1
        self.p = 1
        self.l = 0

    def stmt(self, kind):
        if kind == "ascii":
            return ("ascii", "xyz")
        if kind == "incbin":
            return ("incbin", "blob.bin", BIN)
        if kind in ("db", "dw", "dl", "ptr", "imm", "stal"):
            self.v += 1
            return (kind, f"v{self.v - 1}")
        if kind == "nop":
            return ("nop",)
        if kind == "label":
            self.l += 1
            return ("label", f"l{self.l - 1}")
        self.p += 1
        name = f"p{self.p - 1}"
        return {"star": ("star", name, "rom"), "at-rom": ("at", name, "rom"), "at-ram": ("at", name, "ram"), "star-ram": ("star", name, "ram")}[kind]


def build(kinds, wrapper=None):
    nm = Namer()
    body = [nm.stmt(k) for k in kinds]
    prog = [("star", "p0", "rom"), ("db", "v0")]
    if wrapper is None:
        return prog + body
    if wrapper == "block":
        return prog + [("block", body), ("db", "v0")]
    if wrapper == "scope":
        return prog + [("scope", "ns", body), ("db", "v0")]
    if wrapper == "macro":
        return prog + [("macro", "mm", body), ("apply", "mm"), ("db", "v0")]
    if wrapper == "macro2":
        return prog + [("macro", "mm", body), ("apply", "mm"), ("dw", "v0"), ("apply", "mm")]
    if wrapper == "for":
        return prog + [("for", "i", 2, body), ("db", "v0")]
    if wrapper == "if":
        return prog + [("if", 1, body, [("nop",)]), ("if", 0, [("nop",)], body)]
    if wrapper == "for-expr":
        # compound position operands built from the loop variable / a macro parameter (one expression node, several expansions)
        return prog + [("for", "i", 3, [("starx", "p1", "i", 0x40, "rom")] + body), ("db", "v0")]
    if wrapper == "macro-expr":
        return prog + [("macrop", "mp", "a", [("starp", "a", 1, "rom")] + body), ("applyp", "mp", "p1"), ("dw", "v0"), ("applyp", "mp", "p2"), ("applyp", "mp", "p3"), ("db", "v0")]
    if wrapper == "macro-expr-in-for":
        return prog + [("macrop", "mp", "a", [("starp", "a", 0x10, "rom")] + body), ("for", "i", 2, [("applyp", "mp", "p1"), ("starx", "p2", "i", 0x20, "rom"), ("db", "v0")])]
    if wrapper == "nested":
        return prog + [("block", [("scope", "ns", body), ("for", "i", 2, [("block", body[:1])])]), ("db", "v0")]
    raise ValueError(wrapper)


def _has_label_in_loop(wrapper, kinds):
    return False


def jobs(tier, seed):
    out = []
    seqs = [()]
    maxfull = 2 if tier == "quick" else 3
    for n in range(1, maxfull + 1):
        seqs += list(itertools.product(ALPHA, repeat=n))
    if tier == "quick":
        seqs += [s for s in itertools.product(REDUCED, repeat=3)]
    for rom in ("low", "high", "map"):
        for s in seqs:
            if rom == "map" and len(s) > 1:
                continue
            out.append({"id": f"{rom}/seq/{'+'.join(s) or 'empty'}", "rom": rom, "kinds": list(s), "wrapper": None})
        bodies = [["dw"], ["dw", "star", "db"], ["at-ram", "dl"], ["label", "imm"]]
        for w in ("block", "scope", "macro", "macro2", "for", "if", "nested", "for-expr", "macro-expr", "macro-expr-in-for"):
            for b in bodies:
                if w.endswith(("-expr", "-in-for")) and any(k in ("star", "at-ram", "label") for k in b):
                    continue
                if rom == "map" and len(b) > 1:
                    continue
                out.append({"id": f"{rom}/{w}/{'+'.join(b)}", "rom": rom, "kinds": b, "wrapper": w})
    if tier == "thorough":
        rnd = random.Random(seed * 977 + 3)
        for k in range(300):
            n = rnd.randint(4, 6)
            s = [rnd.choice(ALPHA[:-1]) for _ in range(n)]
            w = rnd.choice([None, "block", "scope", "macro2", "for", "if", "nested"])
            rom = rnd.choice(["low", "high", "map"])
            out.append({"id": f"{rom}/rand{k:03d}", "rom": rom, "kinds": s, "wrapper": w})
    return out


def run(spec, cx):
    g = L.GEOMS[spec["rom"]]
    prog = build(spec["kinds"], spec["wrapper"])
    vals, poss = SK.holes(prog)
    syms = {}
    for v in vals:
        syms[v] = cx.int(v, 0, 0xFFFFFF)
    for name, kind in poss:
        syms[name] = cx.int(name, 0, 0xFFFFFF)
        t = cx.t(name)
        if kind == "rom":
            cx.assume(L.in_window(g, t))
        else:
            cx.assume(z3.And(L.is_ram(g, t), (t & 0xFFFF) <= 0xFF00))
    # compound operands (`*= hole + i * stride`, `*= param + 1`): the computed address must be a valid position too
    dry = L.Layout(spec["rom"])
    SK.walk(prog, dry, cx.t)
    for t, kind in dry.positions:
        if kind == "rom" and not (z3.is_const(t) and t.decl().kind() == z3.Z3_OP_UNINTERPRETED):
            cx.assume(L.in_window(g, t))
    src = SK.render(prog) + "\n"
    if spec["rom"] == "map":
        src = L.MAP_SOURCE + src
    from harness.common import virtual_files

    with virtual_files(cx, {"blob.bin": bytes(BIN)}):
        r = assemble(src, syms, rom="high" if spec["rom"] == "high" else "low")
    if r[0] == "ok":
        return ("ok", [(a, b) for a, b in r[1]])
    return ("rejected", "error-string" if r[0] == "error" else type(r[1]).__name__)


def check(spec, cx, out):
    prog = build(spec["kinds"], spec["wrapper"])
    lay = L.Layout(spec["rom"])
    SK.walk(prog, lay, cx.t)
    exp = lay.finish()
    pre = z3.And(*lay.pre) if lay.pre else z3.BoolVal(True)
    if out[0] == "rejected":
        # rejection is acceptable only when the program leaves the mapped range, or emits bytes
        # while *= points into RAM (no file offset exists for them)
        if lay.ram_emission:
            return [("blocks-ram-position", z3.BoolVal(True))]
        return [("valid-program-assembles", z3.Not(pre))]
    got = out[1]
    label = "blocks-ram-position" if lay.ram_emission else "blocks"
    if len(got) != len(exp):
        return [(label, z3.Not(pre))]
    conds = []
    for (ga, gb), (ea, eb) in zip(got, exp):
        gbs = blist(gb)
        if len(gbs) != len(eb):
            return [(label, z3.Not(pre))]
        conds.append(bv(ga) == ea)
        conds += [x == y for x, y in zip(gbs, eb)]
    return [(label, z3.Implies(pre, z3.And(*conds) if conds else z3.BoolVal(True)))]
