"""C04 -- address mapping: offsets, mirrors and address advance obey the bus laws.

Symbolic: logical address a in [0,2^24), increments m,n in [0,2^17).
Enumerated: LoROM, HiROM and a family of `.map` configurations installed through the real
`.map` directive.  The oracle is the textbook formula, written here from the property text."""
import random

import z3

from harness.common import B, W
from symx import bv

PROPERTY = "C04"

META = {
    "bounds": {
        "quick": "a in [0,2^24), m,n in [0,2^17); LoROM, HiROM + 16 .map configurations (two with a mirrored RAM range); laws: translate, advance (also from starts below the bank window: offset n larger than the start's own translation, result in-window), associativity; Bus.unmap of every mapping of 4 user buses rejects every address afterwards",
        "thorough": "a in [0,2^24), m,n in [0,2^17); LoROM, HiROM + 60 .map configurations (incl. VERIF_SEED-drawn); same laws",
    },
    "outside": [
        "addresses >= 2^24 and negative increments",
        ".map with an explicit writable=0 (the repository's own test uses it to declare RAM)",
        "windows other than 0x8000-0xFFFF/mask 0x8000 and 0x0000-0xFFFF/mask 0x10000",
        "ROM addresses below the bank window (property speaks about in-window addresses)",
    ],
    "oracle": "textbook offset = (bank - first bank of range) * bank size + position in window; written from the property statement",
    "stubs": [],
    "assumptions": [],
}

OPTS = {"quick": {"deadline_s": 120}, "thorough": {"deadline_s": 300}}

BUILTIN = {
    "lorom": {"rom": "low", "primary": [0x00, 0x6F], "mirror": [0x80, 0xCF], "mask": 0x8000, "ram": [[0x7E, 0x7F]]},
    "hirom": {"rom": "high", "primary": [0x40, 0x7F], "mirror": [0xC0, 0xFF], "mask": 0x10000, "ram": [[0x7E, 0x7F]]},
}


def map_configs(tier, seed):
    """Deterministic family of user mappings: (first,last,mirror_first|None,mask) + optional RAM range."""
    cfgs = []
    base = [
        (0x00, 0x3F, 0x80, 0x8000, (0x7E, 0x7F)),
        (0x00, 0x3F, None, 0x8000, None),
        (0x00, 0x7D, 0x80, 0x8000, (0x7E, 0x7F)),
        (0x10, 0x1F, 0x90, 0x8000, None),
        (0x00, 0x00, 0x80, 0x8000, None),
        (0x01, 0x02, None, 0x8000, (0x7F, 0x7F)),
        (0x40, 0x6F, 0xC0, 0x10000, (0x7E, 0x7F)),
        (0xC0, 0xFF, 0x40, 0x10000, None),
        (0xC0, 0xFF, None, 0x10000, (0x7E, 0x7F)),
        (0x00, 0x3F, 0x40, 0x10000, None),
        (0x20, 0x20, 0xA0, 0x10000, None),
        (0x80, 0xBF, 0x00, 0x8000, (0x7E, 0x7F)),
        (0x05, 0x45, 0x85, 0x8000, None),
        (0x00, 0x0F, 0xF0, 0x10000, (0x70, 0x71)),
        # RAM range that has a mirror of its own (ram, ram mirror first bank)
        (0x00, 0x3F, 0x80, 0x8000, (0x7E, 0x7F, 0xFE)),
        (0x40, 0x4F, None, 0x10000, (0x60, 0x61, 0xE0)),
    ]
    cfgs += base
    if tier == "thorough":
        rnd = random.Random(seed * 7919 + 17)
        while len(cfgs) < 60:
            n = rnd.choice([1, 2, 4, 16, 32, 48, 64])
            first = rnd.randrange(0, 0x100 - n)
            mask = rnd.choice([0x8000, 0x10000])
            mirror = None
            if rnd.random() < 0.7:
                cands = [x for x in range(0, 0x100 - n) if x + n - 1 < first or x > first + n - 1]
                if cands:
                    mirror = rnd.choice(cands)
            used = set(range(first, first + n)) | (set(range(mirror, mirror + n)) if mirror is not None else set())
            ram = None
            if rnd.random() < 0.5:
                free = [x for x in range(0, 0xFF) if x not in used and x + 1 not in used]
                if free:
                    r0 = rnd.choice(free)
                    ram = (r0, r0 + 1)
            cfgs.append((first, first + n - 1, mirror, mask, ram))
    out = {}
    for i, (first, last, mirror, mask, ram) in enumerate(cfgs):
        n = last - first + 1
        out[f"map{i:02d}"] = {
            "primary": [first, last],
            "mirror": None if mirror is None else [mirror, mirror + n - 1],
            "mask": mask,
            "ram": [list(ram[:2])] if ram else [],
            "ram_mirror": [ram[2], ram[2] + ram[1] - ram[0]] if ram and len(ram) > 2 else None,
        }
    return out


def map_source(cfg):
    (first, last), mask = cfg["primary"], cfg["mask"]
    lo = 0x8000 if mask == 0x8000 else 0
    s = f".map identifier=1 bank_range=0x{first:02x}, 0x{last:02x} addr_range=0x{lo:04x}, 0xffff mask=0x{mask:x}"
    if cfg["mirror"] is not None:
        s += f" mirror_bank_range=0x{cfg['mirror'][0]:02x}, 0x{cfg['mirror'][1]:02x}"
    s += "\n"
    for i, (r0, r1) in enumerate(cfg["ram"]):
        s += f".map identifier={i + 2} bank_range=0x{r0:02x}, 0x{r1:02x} addr_range=0x0000, 0xffff mask=0x10000 writable=1"
        if cfg.get("ram_mirror"):
            s += f" mirror_bank_range=0x{cfg['ram_mirror'][0]:02x}, 0x{cfg['ram_mirror'][1]:02x}"
        s += "\n"
    return s


def jobs(tier, seed):
    cfgs = dict(BUILTIN)
    cfgs.update(map_configs(tier, seed))
    out = []
    for name, cfg in cfgs.items():
        for law in ("translate", "advance", "assoc"):
            out.append({"id": f"{name}/{law}", "config": name, "cfg": cfg, "law": law})
    # Bus.unmap: once every mapping of a user bus is removed again, every bank is rejected
    for name, cfg in list(cfgs.items())[:6]:
        if "rom" not in cfg:
            out.append({"id": f"{name}/unmap-all", "config": name, "cfg": cfg, "law": "translate", "unmap": True})
    # the built-in mappings must be what a fresh Program sees even after another Program of the same
    # process installed a user mapping
    other = map_configs("quick", 0)["map06"]
    for name in ("lorom", "hirom"):
        for law in ("translate", "advance"):
            out.append({"id": f"{name}-after-user-map/{law}", "config": name, "cfg": BUILTIN[name], "law": law, "after": other})
    return out


def get_bus(spec):
    """The bus as the assembler builds it: built-in (via rom type) or through the real `.map` directive."""
    from harness.common import RecWriter, new_program

    cfg = spec["cfg"]
    if spec.get("after"):
        q = new_program("low")
        q.assemble_string_with_emitter(map_source(spec["after"]) + "*=0x400000\n.db 1\n", "other.s", RecWriter())
    p = new_program(cfg.get("rom", "low"))
    if "rom" not in cfg:
        err = p.assemble_string_with_emitter(map_source(cfg), "map.s", RecWriter())
        assert err is None, err
    return p, p.resolver.get_bus()


def run(spec, cx):
    a = cx.int("a", 0, 0xFFFFFF)
    law = spec["law"]
    prog, bus = get_bus(spec)
    if spec.get("unmap"):
        for ident in [k for k in list(bus.mappings) if not str(k).endswith("_mirror")]:
            bus.unmap(ident)
    try:
        A = bus.get_address(a)
    except KeyError:
        if spec.get("unmap"):
            return ("unmapped",)      # (the Bus is the subject here; Program.get_physical_address keeps its own view)
        try:
            prog.get_physical_address(a)
            return ("unmapped-but-translated",)
        except KeyError:
            return ("unmapped",)
    p0 = A.physical
    if law == "translate":
        try:
            pp = prog.get_physical_address(a)
        except RuntimeError:
            pp = None
        return ("mapped", p0, pp, A.writable)
    n = cx.int("n", 0, 0x1FFFF)
    if law == "advance":
        try:
            Bd = A + n
        except KeyError:
            return ("advance-unmapped", p0)
        return ("advance", p0, Bd.logical_value, Bd.physical)
    m = cx.int("m", 0, 0x1FFFF)
    try:
        C1 = (A + m) + n
        C2 = A + (m + n)
    except KeyError:
        return ("assoc-unmapped", p0)
    return ("assoc", p0, C1.logical_value, C2.logical_value, C1.physical, C2.physical)


# ------------------------------------------------------------------ oracle
def ram_ranges(cfg):
    out = [tuple(r) for r in cfg["ram"]]
    if cfg.get("ram_mirror"):
        out.append(tuple(cfg["ram_mirror"]))
    return out


def segments(cfg):
    """Maximal runs of ROM banks: (seg_first, seg_last, first bank of the range the run belongs to).

    Later registrations win a bank: mirror over primary, RAM over both."""
    owner = {}
    for bnk in range(cfg["primary"][0], cfg["primary"][1] + 1):
        owner[bnk] = cfg["primary"][0]
    if cfg["mirror"] is not None:
        for bnk in range(cfg["mirror"][0], cfg["mirror"][1] + 1):
            owner[bnk] = cfg["mirror"][0]
    for r0, r1 in ram_ranges(cfg):
        for bnk in range(r0, r1 + 1):
            owner[bnk] = None
    segs = []
    for bnk in range(256):
        o = owner.get(bnk)
        if o is None:
            continue
        if segs and segs[-1][1] == bnk - 1 and segs[-1][2] == o:
            segs[-1][1] = bnk
        else:
            segs.append([bnk, bnk, o])
    return segs


def _geometry(cfg, a):
    """(is_rom, is_ram, in_window, offset, first bank of range, byte size up to the end of the run, mask, base)."""
    bank = (a >> 16) & 0xFF
    off16 = a & 0xFFFF
    mask = cfg["mask"]
    ram = z3.Or(*[z3.And(bank >= r0, bank <= r1) for (r0, r1) in ram_ranges(cfg)]) if cfg["ram"] else z3.BoolVal(False)
    rom_terms, first_term, size_term = [], B(0), B(0)
    for s0, s1, rf in segments(cfg):
        inseg = z3.And(bank >= s0, bank <= s1)
        rom_terms.append(inseg)
        first_term = z3.If(inseg, B(rf), first_term)
        size_term = z3.If(inseg, B((s1 - rf + 1) * mask), size_term)
    is_rom = z3.Or(*rom_terms) if rom_terms else z3.BoolVal(False)
    base = 0x8000 if mask == 0x8000 else 0
    in_window = off16 >= base
    offset = (bank - first_term) * mask + (off16 - base)
    return is_rom, ram, in_window, offset, first_term, size_term, mask, base


def check(spec, cx, out):
    cfg = spec["cfg"]
    a = cx.t("a")
    is_rom, ram, in_window, offset, first_term, size, mask, base = _geometry(cfg, a)
    kind = out[0]
    res = []
    if kind == "unmapped-but-translated":
        return [("unmapped-rejected", z3.BoolVal(False))]
    if spec.get("unmap"):
        return [("rejected-after-unmap", z3.BoolVal(kind == "unmapped"))]
    if kind == "unmapped":
        return [("unmapped-iff-no-range", z3.And(z3.Not(is_rom), z3.Not(ram)))]
    res.append(("mapped-iff-range", z3.Or(is_rom, ram)))
    p0 = out[1]
    if p0 is None:
        res.append(("no-offset-only-for-ram", ram))
    else:
        res.append(("offset-formula", z3.And(is_rom, z3.Implies(in_window, bv(p0) == offset))))
    if kind == "mapped":
        pp, writable = out[2], out[3]
        res.append(("program-translation-agrees", z3.BoolVal((pp is None) == (p0 is None)) if (pp is None or p0 is None) else bv(pp) == bv(p0)))
        res.append(("writable-iff-ram", z3.BoolVal(bool(writable)) == ram))
        return res
    n = cx.t("n")
    if kind == "advance-unmapped":
        if p0 is None:
            # RAM: a+n left the mapped banks
            nb = ((a + n) >> 16) & 0xFF
            stays = z3.Or(*[z3.And(nb >= r0, nb <= r1) for (r0, r1) in ram_ranges(cfg)]) if cfg["ram"] else z3.BoolVal(False)
            res.append(("ram-advance-stays-mapped", z3.Not(z3.And(stays, (a + n) <= 0xFFFFFF))))
        else:
            res.append(("advance-inside-range-is-mapped", z3.Not(z3.And(in_window, offset + n < size))))
        return res
    if kind == "advance":
        lv, ph = bv(out[2]), out[3]
        if p0 is None:
            # (result bank is mapped, else the constructor would have raised)
            res.append(("ram-advance-adds-n", lv == a + n))
            return res
        tgt = offset + n
        exp = ((first_term + z3.UDiv(tgt, B(mask))) << 16) | (B(base) + z3.URem(tgt, B(mask)))
        pre = z3.And(in_window, tgt < size)
        res.append(("advance-logical", z3.Implies(pre, lv == exp)))
        res.append(("advance-offset", z3.Implies(pre, z3.BoolVal(False) if ph is None else bv(ph) == tgt)))
        res.append(("advance-in-window-same-range", z3.Implies(pre, z3.And((lv & 0xFFFF) >= base, ((lv >> 16) - first_term) >= 0, ((lv >> 16) - first_term) * mask < size))))
        res.append(("advance-zero-identity", z3.Implies(z3.And(in_window, n == 0), lv == a)))
        # a start below the bank window (accepted by the assembler; its own translation p0 is taken as given):
        # advancing still yields the in-window address whose file offset is n larger
        tgt2 = bv(p0) + n
        exp2 = ((first_term + z3.UDiv(tgt2, B(mask))) << 16) | (B(base) + z3.URem(tgt2, B(mask)))
        pre2 = z3.And(is_rom, z3.Not(in_window), tgt2 < size)
        res.append(("advance-from-below-window", z3.Implies(pre2, z3.And(lv == exp2, z3.BoolVal(False) if ph is None else bv(ph) == tgt2))))
        return res
    m = cx.t("m")
    if kind == "assoc-unmapped":
        if p0 is not None:
            res.append(("assoc-inside-range-is-mapped", z3.Not(z3.And(in_window, offset + m + n < size))))
        return res
    l1, l2 = bv(out[2]), bv(out[3])
    if p0 is None:
        def in_ram(x):
            nb = (x >> 16) & 0xFF
            return z3.And(x <= 0xFFFFFF, z3.Or(*[z3.And(nb >= r0, nb <= r1) for (r0, r1) in ram_ranges(cfg)]))

        pre = z3.And(in_ram(a + m), in_ram(a + n), in_ram(a + m + n))
        res.append(("ram-assoc", z3.Implies(pre, z3.And(l1 == l2, l1 == a + m + n))))
    else:
        pre = z3.And(in_window, offset + m + n < size)
        res.append(("assoc", z3.Implies(pre, l1 == l2)))
        if out[4] is not None and out[5] is not None:
            res.append(("assoc-offset", z3.Implies(pre, z3.And(bv(out[4]) == offset + m + n, bv(out[5]) == offset + m + n))))
    return res
