"""C05 -- relative branches encode the true displacement or are rejected.

Symbolic: storage address p, optional relocation r (ROM, RAM or unmapped), target t (any 24-bit
value, as a predefined symbol) -- every displacement, placement and bank edge at once.
Enumerated: branch mnemonics x {no @=, @= r} x {LoROM, HiROM} x target kind (symbol, backward
label, forward label at boundary distances)."""
import z3

from harness.C01 import table_mnemonics
from harness.common import B, assemble, blist, hirom_is_rom, is_ram, lorom_is_rom
from oracles.isa65816 import BRANCHES
from symx import bv

PROPERTY = "C05"

META = {
    "bounds": {
        "quick": "p: any in-window ROM address (offset <= 0xFFF0) of the mapping, r: any 24-bit value, t: any 24-bit value (symbolic); all table branch mnemonics for the symbol-target skeletons; label-target skeletons (distances 0,1,125..128,200 backward; 0,1,126..129,300 forward) for bra/bne",
        "thorough": "same, label-target skeletons for every branch mnemonic, with and without @= (ROM and RAM)",
    },
    "outside": [
        "branches whose run address + 2 leaves the bank window (CPU program-counter wrap semantics not stated)",
        "targets in another bank or below the bank window (unconstrained)", "brl/per (not in the assembler's table)",
    ],
    "oracle": "displacement = target - (run address + 2) over run addresses; accepted iff in -128..127; RAM run address or target => rejected (written from the property text)",
    "stubs": ["logging / print output discarded"],
    "assumptions": [],
}

OPTS = {"quick": {"deadline_s": 300}, "thorough": {"deadline_s": 600}}

BACK = [0, 1, 125, 126, 127, 128, 200]
FWD = [0, 1, 126, 127, 128, 129, 300]


def jobs(tier, seed):
    mns = sorted(set(BRANCHES) & table_mnemonics())
    out = []
    for rom in ("low", "high"):
        for mn in mns:
            for reloc in (False, True):
                out.append({"id": f"{rom}/{mn}/sym/{'reloc' if reloc else 'plain'}", "rom": rom, "mn": mn, "kind": "sym", "reloc": reloc})
        label_mns = mns if tier == "thorough" else [m for m in mns if m in ("bra", "bne")]
        for mn in label_mns:
            for reloc in (False, True):
                for k in BACK:
                    out.append({"id": f"{rom}/{mn}/back{k}/{'reloc' if reloc else 'plain'}", "rom": rom, "mn": mn, "kind": "back", "k": k, "reloc": reloc})
                for k in FWD:
                    out.append({"id": f"{rom}/{mn}/fwd{k}/{'reloc' if reloc else 'plain'}", "rom": rom, "mn": mn, "kind": "fwd", "k": k, "reloc": reloc})
        # branches inside constructs: local label of a macro applied twice, loop iterations, a label
        # exported by a named scope, a block
        for mn in label_mns[:1] if tier == "quick" else label_mns:
            for w in WRAPPED:
                for k in (0, 126, 127):
                    for reloc in (False, True):
                        out.append({"id": f"{rom}/{mn}/{w}{k}/{'reloc' if reloc else 'plain'}", "rom": rom, "mn": mn, "kind": w, "k": k, "reloc": reloc})
        # code whose run address flows from the last ROM bank below work RAM (0x7D) into 0x7E: a
        # branch back to a label before the border then runs from RAM
        for mn in (label_mns[:1] if tier == "quick" else label_mns) if rom == "high" else ():
            for reloc in (False, True):
                for k in (6, 40):
                    out.append({"id": f"{rom}/{mn}/cross{k}/{'reloc' if reloc else 'plain'}", "rom": rom, "mn": mn, "kind": "cross", "k": k, "reloc": reloc})
    return out


WRAPPED = ("macro-twice", "loop", "named-scope", "block", "macro-scope-twice", "loop-scope", "blocks-scope", "alias-inner-label", "param-inner-label")


def wrapped_source(kind, mn, k):
    """(source after the position lines, total size, [(branch offset, target offset)]) -- offsets from the first byte."""
    f = filler(k)
    if kind == "macro-twice":
        src = ".macro bm() {\nlp:\n" + f + f"{mn} lp\n}}\nbm()\nbm()\n"
        return src, 2 * (k + 2), [(k, 0), (k + 2 + k, k + 2)]
    if kind == "loop":
        src = ".for i := 0, 2 {\nlp:\n" + f + f"{mn} lp\n}}\n"
        return src, 2 * (k + 2), [(k, 0), (k + 2 + k, k + 2)]
    if kind == "named-scope":
        src = f"{mn} ns.tgt\n" + f + ".scope ns {\nnop\ntgt:\n}\n"
        return src, 2 + k + 1, [(0, 2 + k + 1)]
    if kind == "block":
        src = "{\nlp:\n{\n" + f + f"{mn} lp\n}}\n}}\n"
        return src, k + 2, [(k, 0)]
    if kind == "alias-inner-label":
        # `alias = tgt` names the label of its own block (defined further down), not the earlier outer label of that name
        src = "tgt:\nnop\n{\nalias = tgt\n" + f"{mn} alias\n" + f + "tgt:\nnop\n}\n"
        return src, 1 + 2 + k + 1, [(1, 1 + 2 + k)]
    if kind == "param-inner-label":
        src = ".macro brm(where) {\n" + f"{mn} where\n" + "}\ntgt:\nnop\n{\nbrm(tgt)\n" + f + "tgt:\nnop\n}\n"
        return src, 1 + 2 + k + 1, [(1, 1 + 2 + k)]
    # a named scope declared by each expansion of a macro / loop body / sibling block: `tx.busy` is that expansion's label
    one = ".scope tx {\nbusy:\n" + f + "}\n" + f"{mn} tx.busy\n"
    if kind == "macro-scope-twice":
        return ".macro bm(q) {\n" + one + "}\nbm(1)\nbm(2)\n", 2 * (k + 2), [(k, 0), (k + 2 + k, k + 2)]
    if kind == "loop-scope":
        return ".for i := 0, 2 {\n" + one + "}\n", 2 * (k + 2), [(k, 0), (k + 2 + k, k + 2)]
    if kind == "blocks-scope":
        return "{\n" + one + "}\n{\n" + one + "}\n", 2 * (k + 2), [(k, 0), (k + 2 + k, k + 2)]
    raise ValueError(kind)


def filler(k):
    # one statement (one address advance) however long: keeps the address terms shallow
    return f".ascii '{'n' * k}'\n" if k else ""


def run(spec, cx):
    p = cx.int("p", 0, 0xFFFFFF)
    pt = cx.t("p")
    rom_ok = lorom_is_rom(pt) if spec["rom"] == "low" else hirom_is_rom(pt)
    base = 0x8000 if spec["rom"] == "low" else 0
    cross = spec["kind"] == "cross"
    if cross and not spec["reloc"]:
        cx.assume(z3.And((pt >> 16) == 0x7D, (pt & 0xFFFF) >= 0xFF00))
    else:
        cx.assume(z3.And(rom_ok, (pt & 0xFFFF) >= base, (pt & 0xFFFF) <= 0xFFF0 - 512))
    syms = {"p": p}
    src = "*= p\n"
    if spec["reloc"]:
        syms["r"] = cx.int("r", 0, 0xFFFFFF)
        src += "@= r\n"
        if cross:
            cx.assume(z3.And((cx.t("r") >> 16) == 0x7D, (cx.t("r") & 0xFFFF) >= 0xFF00))
    mn = spec["mn"]
    if spec["kind"] == "sym":
        syms["t"] = cx.int("t", 0, 0xFFFFFF)
        src += f"{mn} t\n"
    elif spec["kind"] in ("back", "cross"):
        src += "target:\n" + filler(spec["k"]) + f"{mn} target\n"
    elif spec["kind"] in WRAPPED:
        src += wrapped_source(spec["kind"], mn, spec["k"])[0]
    else:
        src += f"{mn} target\n" + filler(spec["k"]) + "target:\n"
    r = assemble(src, syms, rom=spec["rom"])
    if r[0] == "ok":
        return ("ok", [(a, b) for a, b in r[1]])
    return ("rejected", "error-string" if r[0] == "error" else type(r[1]).__name__)


def check_wrapped(spec, cx, out, R0, isrom, base):
    _, total, branches = wrapped_source(spec["kind"], spec["mn"], spec["k"])
    run_ok = z3.And(isrom(R0), (R0 & 0xFFFF) >= base, (R0 & 0xFFFF) + total <= 0xFFFF)
    ram = z3.And(is_ram(R0), is_ram(R0 + total))       # the whole program runs from RAM
    all_in_range = all(-128 <= t - (b + 2) <= 127 for b, t in branches)
    if out[0] != "ok":
        return [("in-range-branch-is-encoded", z3.Not(z3.And(run_ok, z3.BoolVal(all_in_range))))]
    blocks = out[1]
    if len(blocks) != 1 or len(blocks[0][1]) != total:
        return [("emits-exactly-the-branches", z3.Not(z3.Or(run_ok, ram)))]
    bs = blist(blocks[0][1])
    conds = [z3.BoolVal(all_in_range)]
    for b, t in branches:
        conds += [bs[b] == BRANCHES[spec["mn"]], bs[b + 1] == ((t - (b + 2)) & 0xFF)]
    return [("encodes-true-displacement", z3.Implies(run_ok, z3.And(*conds))), ("ram-branch-rejected", z3.Not(ram))]


def check_cross(spec, out, R0):
    """R0 in bank 0x7D, offset >= 0xFF00: label at R0, k filler bytes, branch at R0 + k."""
    k = spec["k"]
    off = R0 & 0xFFFF
    stays = off + k + 2 <= 0xFFFF           # the whole program runs inside bank 0x7D
    in_ram = off + k > 0xFFFF               # the branch opcode itself runs from 0x7E....
    if out[0] != "ok":
        return [("in-range-branch-is-encoded", z3.Not(stays))]
    blocks = out[1]
    if len(blocks) != 1 or len(blocks[0][1]) != k + 2:
        return [("emits-exactly-the-branch", z3.Not(z3.Or(stays, in_ram)))]
    bs = blist(blocks[0][1])
    return [("encodes-true-displacement", z3.Implies(stays, z3.And(bs[-2] == BRANCHES[spec["mn"]], bs[-1] == ((-(k + 2)) & 0xFF)))),
            ("ram-branch-rejected", z3.Not(in_ram))]


def check(spec, cx, out):
    rom = spec["rom"]
    isrom = lorom_is_rom if rom == "low" else hirom_is_rom
    base = 0x8000 if rom == "low" else 0
    p = cx.t("p")
    R0 = cx.t("r") if spec["reloc"] else p  # run address of the first byte
    kind, k = spec["kind"], spec.get("k", 0)
    if kind in WRAPPED:
        return check_wrapped(spec, cx, out, R0, isrom, base)
    if kind == "cross":
        return check_cross(spec, out, R0)
    if kind == "sym":
        R, t = R0, cx.t("t")
    elif kind == "back":
        R, t = R0 + k, R0
    else:
        R, t = R0, R0 + 2 + k
    total = 2 + k
    inwin = lambda x: (x & 0xFFFF) >= base  # noqa: E731
    # everything the program emits runs inside one bank window (no wrap in between)
    run_ok = z3.And(isrom(R0), inwin(R0), (R0 & 0xFFFF) + total <= 0xFFFF)
    same_bank_rom = z3.And(run_ok, isrom(t), inwin(t), (t >> 16) == (R >> 16))
    d = t - (R + 2)
    in_range = z3.And(d >= -128, d <= 127)
    ram_involved = z3.Or(is_ram(R0), z3.And(run_ok, is_ram(t)))
    res = []
    if out[0] == "ok":
        blocks = out[1]
        ok_shape = len(blocks) == 1 and len(blocks[0][1]) == total
        if not ok_shape:
            return [("emits-exactly-the-branch", z3.Not(z3.Or(same_bank_rom, ram_involved)))]
        bs = blist(blocks[0][1])
        br = bs[:2] if kind in ("sym", "fwd") else bs[-2:]
        res.append(("encodes-true-displacement", z3.Implies(same_bank_rom, z3.And(in_range, br[0] == BRANCHES[spec["mn"]], br[1] == (d & 0xFF)))))
        res.append(("ram-branch-rejected", z3.Not(ram_involved)))
    else:
        res.append(("in-range-branch-is-encoded", z3.Not(z3.And(same_bank_rom, in_range))))
    return res
