"""C06 -- expressions evaluate to their conventional integer value.

(a) values symbolic, structure enumerated: every expression tree up to an operator bound over
    + - * << >> & | and unary - ~, leaves bound to symbolic ints, rendered with minimal /
    redundant parentheses and varied spacing, evaluated through the real eval_expression_str
    (operand lexer) and through data directives, symbol definitions, macro arguments, conditions
    and instruction operands (directive lexer), compared with an independent evaluator.
(b) literal text symbolic: decimal / 0x / 0b literals with symbolic digits."""
import random

import z3

from harness.common import B, assemble, blist, new_program
from oracles import expr as X
from symx import bv

PROPERTY = "C06"

META = {
    "bounds": {
        "quick": "all expression trees with <= 2 operators (154 shapes) x 4 renderings x 12 contexts (incl. a `=` definition and a data entry of the same text around a re-assignment, inner scopes assigning temporaries of the variable's name, the same text evaluated twice in one scope, and the same expression in a code block spliced twice, with a variable re-assigned in between), leaves a..d in [0,2^24) (trees without `*`), [0,2^16) (<= 2 operators), [0,2^12) (larger trees with `*`), shift amounts s in [0,8); literals: decimal 1-5 digits, 0x + 1-4 hex digits (both cases), 0b + 1-6 bits, all symbolic",
        "thorough": "trees with <= 3 operators (all) plus a VERIF_SEED-drawn sample of 4- and 5-operator trees; same leaves; literals up to 6/5/8 digits",
    },
    "outside": [
        "operators / % ^ == != < > (not in the statement)", "operand of ~ with magnitude >= 2^32", "leaf values >= 2^24; >= 2^16 in trees with `*`, >= 2^12 in trees with `*` and more than 2 operators (keeps products inside the engine's 63 bits)",
        "0X / 0B upper-case prefixes and decimal literals with leading zeros (accepted or rejected, never mis-evaluated)",
        ".for bounds with symbolic values (context covered with literal operands only)",
    ],
    "oracle": "oracles/expr.py: tree evaluator with the precedence stated in the property; positional value for literals",
    "stubs": [],
    "assumptions": [],
}

OPTS = {"quick": {"deadline_s": 300}, "thorough": {"deadline_s": 900}}

STYLES = ["min", "sp", "full", "wide"]
# contexts that use the directive lexer accept only some operators
DIRECTIVE_OPS = {"+", "-", "*", "<<", ">>", "&"}
CONTEXTS = ["str", "dl", "symbol", "assign", "macro", "if", "operand", "direct", "reeval", "splice2", "inner-assign", "symbol-late"]


def all_trees(nmax):
    out = []
    for n in range(0, nmax + 1):
        for sh in X.shapes(n):
            out.append(X.name_leaves(sh))
    return out


def jobs(tier, seed):
    out = []
    trees = all_trees(2 if tier == "quick" else 3)
    if tier == "thorough":
        rnd = random.Random(seed * 104729 + 5)
        for n in (4, 5):
            pool = list(X.shapes(n)) if n == 4 else None
            for _ in range(150):
                if pool:
                    sh = rnd.choice(pool)
                else:
                    sh = _random_shape(rnd, n)
                out_t = X.name_leaves(sh)
                if len(X.leaves(out_t)) <= 8:
                    trees.append(out_t)
    # group trees into jobs of ~12 to amortise start-up
    chunk = 12
    small = [t for t in trees if X.count_ops(t) <= 2]
    big = [t for t in trees if X.count_ops(t) > 2]
    for i in range(0, len(small), chunk):
        out.append({"id": f"trees/{i // chunk:03d}", "fam": "trees", "trees": small[i: i + chunk]})
    # larger trees: two renderings and three contexts (all renderings / contexts are covered on the small trees)
    def muls(t):
        return 0 if t[0] in ("leaf", "lit") else (t[1] == "*") + sum(muls(c) for c in t[2:])

    heavy = [t for t in big if muls(t) >= 2]
    big = [t for t in big if muls(t) < 2]
    for i in range(0, len(big), chunk * 2):
        out.append({"id": f"trees3/{i // (chunk * 2):03d}", "fam": "trees", "trees": big[i: i + chunk * 2], "styles": ["min", "sp"], "contexts": ["str", "dl", "if"]})
    # products of three symbolic values (decided through the product abstraction of Engine.decide)
    for i in range(0, len(heavy), chunk * 2):
        out.append({"id": f"trees3m/{i // (chunk * 2):03d}", "fam": "trees", "trees": heavy[i: i + chunk * 2], "styles": ["min", "sp"], "contexts": ["str", "dl", "if"]})
    maxd = {"dec": 5, "hex": 4, "bin": 6} if tier == "quick" else {"dec": 6, "hex": 5, "bin": 8}
    for base, mx in maxd.items():
        for n in range(1, mx + 1):
            for ctx in ("str", "dl"):
                out.append({"id": f"literal/{base}/{n}/{ctx}", "fam": "literal", "base": base, "n": n, "ctx": ctx})
    out.append({"id": "for-bounds", "fam": "for"})
    out.append({"id": "operand-named-a", "fam": "named-a"})
    return out


def _random_shape(rnd, n):
    if n == 0:
        return ("leaf", None)
    if rnd.random() < 0.25:
        return ("un", rnd.choice(X.UNOPS), _random_shape(rnd, n - 1))
    op = rnd.choice(X.BINOPS)
    if op in ("<<", ">>"):
        return ("bin", op, _random_shape(rnd, n - 1), ("leaf", None))
    k = rnd.randrange(n)
    return ("bin", op, _random_shape(rnd, k), _random_shape(rnd, n - 1 - k))


def _pick(x):
    return x.pick() if hasattr(x, "pick") else x


def _tree(t):
    return tuple(_tree(x) if isinstance(x, (list, tuple)) else x for x in t)


def _syms(cx, names, enumerate_shift=False, wide=False):
    syms = {}
    for nm in names:
        if nm == "s" and enumerate_shift:
            # a symbolic shift amount under a symbolic multiplication defeats the bit-blaster:
            # the 8 shift amounts are enumerated instead (complete within the bound)
            syms[nm] = _pick(cx.choice("s", list(range(8))))
        else:
            syms[nm] = cx.int(nm, 0, 7) if nm == "s" else cx.int(nm, 0, wide if isinstance(wide, int) and wide > 1 else 0xFFFF if wide else 0xFFF)
    return syms


def _term(cx, nm):
    t = cx.t(nm)
    if nm == "s" and cx.decl[nm][0] == "choice" and cx.symbolic:
        # enumerated shift amount: the path fixes it; the oracle then shifts by that constant (same
        # spelling as the implementation's, which received the concrete amount)
        for k in range(8):
            if cx.implied(t == k):
                return B(k)
    return z3.ZeroExt(64 - t.size(), t) if t.size() < 64 else t


def run(spec, cx):
    fam = spec["fam"]
    if fam == "trees":
        ti = _pick(cx.choice("tree", list(range(len(spec["trees"])))))
        style = _pick(cx.choice("style", spec.get("styles", STYLES)))
        ctx = _pick(cx.choice("ctx", spec.get("contexts", CONTEXTS)))
        t = _tree(spec["trees"][ti])
        text = X.render(t, style)
        names = sorted(set(X.leaves(t)))
        # 16-bit leaves where at most two products can meet (results stay far inside 63 bits), 12-bit leaves otherwise
        syms = _syms(cx, names, enumerate_shift=X.uses(t, {"*"}) and X.uses(t, {"<<", ">>"}) and X.count_ops(t) > 2, wide=0xFFFFFF if not X.uses(t, {"*"}) else X.count_ops(t) <= 2)
        if ctx != "str" and X.uses(t, {"|", "~"}):
            return ("skipped-context", ti, style, ctx)  # the directive lexer has no | and ~
        if ctx == "str":
            from a816.parse.ast.expression import eval_expression_str

            p = new_program(syms=syms)
            try:
                return ("value", ti, style, ctx, eval_expression_str(text, p.resolver))
            except Exception as e:  # noqa: BLE001
                return ("rejected", ti, style, ctx, type(e).__name__)
        if ctx == "dl":
            src = f"*=0x8000\n.dl {text}\n.dw {text}\n"
        elif ctx == "symbol":
            src = f"*=0x8000\nx = {text}\n.dl x\n.dw x\n"
        elif ctx == "assign":
            src = f"*=0x8000\nx := {text}\n.dl x\n.dw x\n"
        elif ctx == "macro":
            src = f"*=0x8000\n.macro m(q) {{\n.dl q\n.dw q\n}}\nm({text})\n"
        elif ctx == "if":
            src = f"*=0x8000\n.if {text} {{\n.db 1\n}} else {{\n.db 0\n}}\n"
        elif ctx == "inner-assign":
            # nested blocks / a macro / a loop assign temporaries that have the variable's name: the outer variable keeps its value
            src = (f"*=0x8000\n.macro tmpm(q) {{\nx := q + 1\n.db x\n}}\nx := {text}\n{{\nx := 1\n{{\nx := 2\n}}\n}}\ntmpm(3)\n"
                   f".for k := 0, 2 {{\nx := k\n}}\n.dl x\n.dw x\n")
        elif ctx == "symbol-late":
            # `name = text` and a data entry with the same text, a variable re-assigned in between and afterwards: a symbol
            # definition and a data entry see the same (final) values
            src = f"*=0x8000\nx = {text}\na := a + 1\n.dl x\n.dw {text}\n"
        elif ctx == "reeval":
            # the same text evaluated twice in one scope, a variable it reads re-assigned in between
            src = f"*=0x8000\nq := {text}\na := a + 1\nr := {text}\n.dl q\n.dw r\n"
        elif ctx == "splice2":
            # the same source expression inside a code block that a macro splices twice, a variable re-assigned in between
            src = f"*=0x8000\n.macro em(v) {{\n.dl v\n}}\n.macro tw(step) {{\n{{{{step}}}}\n{{{{step}}}}\n}}\ntw({{\nem({text})\na := a + 1\n}})\n"
        elif ctx == "direct":
            # operand without '#': an operand that starts with a parenthesised group is still an expression
            src = f"*=0x8000\nldx.w {text}\n"
        else:
            src = f"*=0x8000\nlda.w #{text}\n"
        r = assemble(src, syms)
        if r[0] == "ok":
            # the value the operand lexer / evaluator gives to the same text (checked against the
            # oracle at value level; the bytes are then compared with this value's packing)
            from a816.parse.ast.expression import eval_expression_str

            try:
                V = eval_expression_str(text, new_program(syms=syms).resolver)
                if ctx in ("reeval", "splice2", "symbol-late"):
                    syms2 = dict(syms)
                    syms2["a"] = syms["a"] + 1
                    V = (V, eval_expression_str(text, new_program(syms=syms2).resolver))
            except Exception:  # noqa: BLE001
                V = None
            return ("bytes", ti, style, ctx, [(a, b) for a, b in r[1]], V)
        return ("rejected", ti, style, ctx, "error-string" if r[0] == "error" else type(r[1]).__name__)
    if fam == "literal":
        base, n = spec["base"], spec["n"]
        if base == "dec":
            doms = [list(range(0x31, 0x3A)) if (i == 0 and n > 1) else list(range(0x30, 0x3A)) for i in range(n)]
            pre = []
        elif base == "hex":
            hexd = list(range(0x30, 0x3A)) + list(range(0x41, 0x47)) + list(range(0x61, 0x67))
            doms = [hexd] * n
            pre = [ord("0"), ord("x")]
        else:
            doms = [[0x30, 0x31]] * n
            pre = [ord("0"), ord("b")]
        chars = [cx.char(f"d{i}", doms[i]) for i in range(n)]
        if spec["ctx"] == "str":
            from a816.parse.ast.expression import eval_expression_str

            p = new_program()
            try:
                return ("value", eval_expression_str(cx.string(pre + chars), p.resolver))
            except Exception as e:  # noqa: BLE001
                return ("rejected", type(e).__name__)
        src = cx.string([ord(c) for c in "*=0x8000\n.dl "] + pre + chars + [ord(c) for c in "\n.db 0x55\n"])
        r = assemble(src, {})
        if r[0] == "ok":
            return ("bytes", [(a, b) for a, b in r[1]])
        return ("rejected", "error-string" if r[0] == "error" else type(r[1]).__name__)
    if fam == "named-a":
        # identifiers denote their symbol's value also when the identifier is `a` / `A` (asl / lsr / rol / ror / inc / dec have an accumulator form)
        a = cx.int("a", 0, 0xFFFF)
        r = assemble("*=0x8000\nA := 0x34\nasl a\nlsr a ; c\nrol a\nror a\ninc a\ndec a\nasl A\n.dw a\n", {"a": a})
        return ("bytes", [(x, y) for x, y in r[1]]) if r[0] == "ok" else ("rejected", str(r[0]))
    if fam == "for":
        src = "*=0x8000\n.for i := 1 + 2 * 1, 2 << 1 + 1 & 0xff {\n.db i\n}\n"
        r = assemble(src, {})
        return ("bytes", [(a, b) for a, b in r[1]]) if r[0] == "ok" else ("rejected", str(r[0]))
    raise ValueError(fam)


def text_starts_with_group_only(t):
    return False


def _pack(cx, fmt, *vals):
    """Little-endian packing of an already evaluated value (byte-level packing itself is C07's
    subject); built with the same shadow-int operations so that equal values give equal terms."""
    if cx.symbolic:
        from symx.shims import SymStruct

        return SymStruct.pack(fmt, *vals)
    import struct

    return struct.pack(fmt, *vals)


def _digit(ch):
    c = z3.ZeroExt(56, ch)
    return z3.If(c <= 0x39, c - 0x30, z3.If(c >= 0x61, c - 0x57, c - 0x37))


def check(spec, cx, out):
    fam = spec["fam"]
    if fam == "trees":
        if out[0] == "skipped-context":
            return [("context-without-operator", z3.BoolVal(True))]
        ti, ctx = out[1], out[3]
        t = _tree(spec["trees"][ti])
        env = {nm: _term(cx, nm) for nm in set(X.leaves(t))}
        side = []
        val = X.evaluate(t, env, side, cx.implied)
        defined = z3.And(*side) if side else z3.BoolVal(True)
        if out[0] == "rejected":
            return [("expression-evaluates", z3.Not(defined))]
        if out[0] == "value":
            return [("value", z3.Implies(defined, bv(out[4]) == val))]
        blocks, V = out[4], out[5]
        if len(blocks) != 1 or V is None:
            return [("value", z3.Not(defined))]
        V2 = None
        if ctx in ("reeval", "splice2", "symbol-late"):
            V, V2 = V
        res = [("value", z3.Implies(defined, bv(V) == val))]
        bs = blist(blocks[0][1])
        if ctx == "if":
            res.append(("same-value-in-context", z3.Implies(defined, z3.And(z3.BoolVal(len(bs) == 1), bs[0] == z3.If(bv(V) != 0, B(1), B(0))))))
            return res
        if ctx == "direct" and text_starts_with_group_only(t):
            # `ldx.w (expr)` alone is the indirect addressing shape, not an expression: no claim here
            return res
        if ctx == "symbol-late":
            exp = blist(_pack(cx, "<HB", V2 & 0xFFFF, (V2 >> 16) & 0xFF)) + blist(_pack(cx, "<H", V2 & 0xFFFF))
        elif ctx == "inner-assign":
            exp = [B(4)] + blist(_pack(cx, "<HB", V & 0xFFFF, (V >> 16) & 0xFF)) + blist(_pack(cx, "<H", V & 0xFFFF))
        elif ctx == "reeval":
            exp = blist(_pack(cx, "<HB", V & 0xFFFF, (V >> 16) & 0xFF)) + blist(_pack(cx, "<H", V2 & 0xFFFF))
        elif ctx == "splice2":
            exp = blist(_pack(cx, "<HB", V & 0xFFFF, (V >> 16) & 0xFF)) + blist(_pack(cx, "<HB", V2 & 0xFFFF, (V2 >> 16) & 0xFF))
        elif ctx == "direct":
            exp = [B(0xAE)] + blist(_pack(cx, "<H", V & 0xFFFF))
        elif ctx == "operand":
            exp = [B(0xA9)] + blist(_pack(cx, "<H", V & 0xFFFF))
        else:
            exp = blist(_pack(cx, "<HB", V & 0xFFFF, (V >> 16) & 0xFF)) + blist(_pack(cx, "<H", V & 0xFFFF))
        if len(bs) != len(exp):
            return res + [("same-value-in-context", z3.BoolVal(False))]
        res.append(("same-value-in-context", z3.Implies(defined, z3.And(*[x == y for x, y in zip(bs, exp)]))))
        return res
    if fam == "literal":
        base = {"dec": 10, "hex": 16, "bin": 2}[spec["base"]]
        val = B(0)
        for i in range(spec["n"]):
            val = val * base + _digit(cx.t(f"d{i}"))
        if out[0] == "rejected":
            return [("canonical-literal-accepted", z3.BoolVal(False))]
        if out[0] == "value":
            return [("literal-value", bv(out[1]) == val)]
        blocks = out[1]
        if len(blocks) != 1 or len(blocks[0][1]) != 4:
            return [("literal-value", z3.BoolVal(False))]
        bs = blist(blocks[0][1])
        return [("literal-value", z3.And(bs[0] == val & 0xFF, bs[1] == (val >> 8) & 0xFF, bs[2] == (val >> 16) & 0xFF, bs[3] == 0x55))]
    if fam == "named-a":
        if out[0] != "bytes" or len(out[1]) != 1:
            return [("operand-named-a-is-the-symbol", z3.BoolVal(False))]
        bs = blist(out[1][0][1])
        a = _term(cx, "a")
        small = a <= 0xFF
        ops = [(0x06, 0x0E), (0x46, 0x4E), (0x26, 0x2E), (0x66, 0x6E), (0xE6, 0xEE), (0xC6, 0xCE)]
        # direct-page form (2 bytes) when the value fits a byte, absolute form (3 bytes) otherwise
        n_small, n_big = 6 * 2 + 2 + 2, 6 * 3 + 2 + 2
        conds = []
        if len(bs) == n_small:
            exp = []
            for dp, _ab in ops:
                exp += [B(dp), a & 0xFF]
            exp += [B(0x06), B(0x34), a & 0xFF, (a >> 8) & 0xFF]
            conds.append(z3.And(small, *[x == y for x, y in zip(bs, exp)]))
        elif len(bs) == n_big:
            exp = []
            for _dp, ab in ops:
                exp += [B(ab), a & 0xFF, (a >> 8) & 0xFF]
            exp += [B(0x06), B(0x34), a & 0xFF, (a >> 8) & 0xFF]
            conds.append(z3.And(z3.Not(small), *[x == y for x, y in zip(bs, exp)]))
        else:
            conds.append(z3.BoolVal(False))
        return [("operand-named-a-is-the-symbol", z3.And(*conds))]
    if fam == "for":
        # 1 + 2*1 = 3 ; 2 << 1 + 1 & 0xff = (2 << 2) & 0xff = 8  -> bytes 3,4,5,6,7
        ok = out[0] == "bytes" and len(out[1]) == 1 and bytes(out[1][0][1]) == bytes([3, 4, 5, 6, 7])
        return [("for-bounds", z3.BoolVal(ok))]
    raise ValueError(fam)
