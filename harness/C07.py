"""C07 -- data directives emit the exact little-endian bytes of their values.

Symbolic: list element values in [-2^31, 2^32), .ascii characters, .incbin length (blob) and
placement p (so the data can cross a bank end).  Enumerated: directive kind x list length x
forward/backward reference."""
import z3

from harness.common import B, advance, assemble, blist, eq_bytes, in_rom_window, le_bytes, rom_offset, rom_range_end, segs_of, virtual_files
from symx import bv

PROPERTY = "C07"

WIDTH = {"db": 1, "dw": 2, "dl": 3, "pointer": 3}
ASCII_DOMAIN = sorted(set(range(0x00, 0x100)) - {0x27, 0x5C, 0x0A})

META = {
    "bounds": {
        "quick": ".db/.dw/.dl/.pointer lists of 1-3 symbolic values in [-2^31,2^32); forward/backward label references with symbolic placement p (LoROM, HiROM); .ascii of 0-3 symbolic 8-bit characters; .incbin of symbolic length n < 0x18000 at symbolic p (bank crossing included)",
        "thorough": "same with lists up to 4, .ascii up to 4 characters and mixed directive sequences",
    },
    "outside": ["quote/backslash/newline inside .ascii (escape conventions not stated)", ".incbin longer than 0x18000", "values beyond 32 bits"],
    "oracle": "two's-complement little-endian truncation; ASCII bytes; file bytes verbatim; start/size symbols; address advance by the textbook mapping formula (harness/common.py)",
    "stubs": ["open(): virtual file system for the .incbin file (content = unconstrained blob of symbolic length)"],
    "assumptions": [],
}

OPTS = {"quick": {"deadline_s": 300}, "thorough": {"deadline_s": 900}}


def jobs(tier, seed):
    out = []
    maxlen = 3 if tier == "quick" else 4
    for kind in WIDTH:
        for n in range(1, maxlen + 1):
            out.append({"id": f"values/{kind}/{n}", "t": "values", "kind": kind, "n": n})
        for rom in ("low", "high"):
            for direction in ("back", "fwd"):
                out.append({"id": f"refs/{rom}/{kind}/{direction}", "t": "refs", "kind": kind, "dir": direction, "rom": rom})
    for n in range(0, (3 if tier == "quick" else 4) + 1):
        out.append({"id": f"ascii/{n}", "t": "ascii", "n": n})
    # .ascii literals holding escaped quotes (first / last / middle / only): the text between the delimiters is emitted as written
    for k, tpl in enumerate(["\\'", "?\\'", "\\'?", "?\\'?", "\\'\\'"]):
        out.append({"id": f"ascii-escaped-quote/{k}", "t": "ascii-q", "tpl": tpl})
    for rom in ("low", "high"):
        # a file longer than 64 KiB after `@=` to another ROM address: still one contiguous block at the `*=` position
        out.append({"id": f"incbin-after-reloc/{rom}", "t": "incbin", "rom": rom, "reloc": True})
    for rom in ("low", "high"):
        out.append({"id": f"incbin/{rom}", "t": "incbin", "rom": rom})
        out.append({"id": f"incbin-scope/{rom}", "t": "incbin", "rom": rom, "scoped": True})
        out.append({"id": f"incbin-file-changed/{rom}", "t": "incbin", "rom": rom, "twice": True})
        # the source is named with a directory part and a copy of the binary lies next to it: same bytes, same symbol names
        out.append({"id": f"incbin-source-in-directory/{rom}", "t": "incbin", "rom": rom, "srcdir": True})
    # entries naming a symbol that an outer scope binds while the program is expanded (`:=`, loop variable,
    # macro parameter) and the directive's own scope defines by `=` / a label: the nearest definition is emitted
    for k in SHADOW:
        out.append({"id": f"shadowed/{k}", "t": "shadow", "k": k})
    if tier == "thorough":
        out.append({"id": "mixed/1", "t": "mixed"})
    return out


# name -> (source, expected bytes as names / ints / ("lo"|"hi", int))
SHADOW = {
    "assign-then-eq": ("*=0x8000\nx := a\n{\nx = b\n.db x\n}\n.db x\n", ["b", "a"]),
    "eq-later-in-scope": ("*=0x8000\nx := a\n{\n.db x\nx = b\n}\n.db x\n", ["b", "a"]),
    "label-later-in-scope": ("*=0x8000\nx := a\n{\n.dw x\nx:\n}\n.db x\n", [0x02, 0x80, "a"]),
    "loopvar-label": ("*=0x8000\n.for i := 0, 2 {\n{\ni:\n.dw i\n}\n.db i + a\n}\n", [0x00, 0x80, ("plus", 0), 0x03, 0x80, ("plus", 1)]),
    "param-eq": ("*=0x8000\n.macro m(q) {\n{\nq = b\n.db q\n}\n.db q\n}\nm(a)\nm(b)\n", ["b", "a", "b", "b"]),
    # entries naming `scope.label` of a named scope that a macro body / loop body declares: each expansion has its own
    "macro-scope-export": ("*=0x8000\n.macro handler(id) {\n.scope h {\nentry:\n.db id\n}\n.dw h.entry\n}\nhandler(a)\nhandler(b)\nhandler(1)\n", ["a", 0x00, 0x80, "b", 0x03, 0x80, 1, 0x06, 0x80]),
    "loop-scope-export": ("*=0x8000\n.for i := 0, 2 {\n.scope h {\nentry:\n.db a\n}\n.dl h.entry\n.pointer h.entry\n}\n", ["a", 0x00, 0x80, 0x00, 0x00, 0x80, 0x00, "a", 0x07, 0x80, 0x00, 0x07, 0x80, 0x00]),
    "param-label-in-dl": ("*=0x8000\n.macro m(q) {\n{\n.dl q\nq:\n}\n.db q\n}\nm(a)\n", [0x03, 0x80, 0x00, "a"]),
}


def _outcome(r):
    if r[0] == "ok":
        return ("ok", [(a, b) for a, b in r[1]])
    return ("rejected", "error-string" if r[0] == "error" else type(r[1]).__name__)


def run(spec, cx):
    t = spec["t"]
    if t == "values":
        names = [f"v{i}" for i in range(spec["n"])]
        syms = {nm: cx.int(nm, -(1 << 31), (1 << 32) - 1) for nm in names}
        src = f"*=0x8000\n.{spec['kind']} " + ", ".join(names) + "\nend:\n.dl end\n"
        return _outcome(assemble(src, syms))
    if t == "mixed":
        syms = {nm: cx.int(nm, -(1 << 31), (1 << 32) - 1) for nm in ("a", "b", "c", "d")}
        src = "*=0x8000\n.db a, b\n.dw c\n.dl d, a\n.pointer b\n.dw a+b, c-d\nend:\n.dl end\n"
        return _outcome(assemble(src, syms))
    if t == "shadow":
        syms = {"a": cx.int("a", 0, 0xFF), "b": cx.int("b", 0, 0xFF)}
        return _outcome(assemble(SHADOW[spec["k"]][0], syms))
    if t == "refs":
        p = cx.int("p", 0, 0xFFFFFF)
        pt = cx.t("p")
        base = 0x8000 if spec["rom"] == "low" else 0
        cx.assume(z3.And(in_rom_window(spec["rom"], pt), (pt & 0xFFFF) >= base, (pt & 0xFFFF) <= 0xFFE0))
        if spec["dir"] == "back":
            src = f"*= p\nlbl:\n.{spec['kind']} lbl\n"
        else:
            src = f"*= p\n.{spec['kind']} lbl\nlbl:\n"
        return _outcome(assemble(src, {"p": p}, rom=spec["rom"]))
    if t == "ascii-q":
        chars = [cx.char(f"c{i}", ASCII_DOMAIN) if c == "?" else ord(c) for i, c in enumerate(spec["tpl"])]
        src = cx.string([ord(x) for x in "*=0x8000\n.ascii '"] + chars + [ord(x) for x in "'\nend:\n.dl end\n"])
        return _outcome(assemble(src, {}))
    if t == "ascii":
        chars = [cx.char(f"c{i}", ASCII_DOMAIN) for i in range(spec["n"])]
        src = cx.string([ord(x) for x in "*=0x8000\n.ascii '"] + chars + [ord(x) for x in "'\nend:\n.dl end\n"])
        return _outcome(assemble(src, {}))
    if t == "incbin":
        p = cx.int("p", 0, 0xFFFFFF)
        n = cx.int("n", 0, 0x17FFF)
        pt = cx.t("p")
        cx.assume(in_rom_window(spec["rom"], pt))
        # the whole output must stay inside the mapped ROM range
        cx.assume(rom_offset(spec["rom"], pt) + cx.t("n") + 16 < rom_range_end(spec["rom"], pt))
        if spec.get("twice"):
            # the same path held other bytes when it was assembled a moment ago (same process):
            # the directive must emit the file's present bytes
            m = cx.int("m", 0, 0xFF)
            with virtual_files(cx, {"data.bin": cx.blob("older-content", m)}):
                assemble("*= p\n.incbin 'data.bin'\n.dl data_bin__size\n", {"p": p}, rom=spec["rom"])
        blob = cx.blob("data.bin", n)
        if spec.get("reloc"):
            r = cx.int("r", 0, 0xFFFFFF)
            rt = cx.t("r")
            cx.assume(in_rom_window(spec["rom"], rt))
            cx.assume(rom_offset(spec["rom"], rt) + cx.t("n") + 16 < rom_range_end(spec["rom"], rt))
            with virtual_files(cx, {"data.bin": blob}):
                return _outcome(assemble("*= p\n@= r\n.incbin 'data.bin'\nend:\n.dl data_bin, data_bin__size, end\n", {"p": p, "r": r}, rom=spec["rom"]))
        if spec.get("srcdir"):
            from harness.common import RecWriter, new_program

            with virtual_files(cx, {"data.bin": blob, "proj/src/data.bin": blob}):
                prog = new_program(spec["rom"], {"p": p})
                w = RecWriter()
                try:
                    err = prog.assemble_string_with_emitter("*= p\n.incbin 'data.bin'\nend:\n.dl data_bin, data_bin__size, end\n", "proj/src/main.s", w)
                except Exception as e:  # noqa: BLE001
                    return ("rejected", type(e).__name__)
                return ("ok", [(a, b) for a, b in w.blocks]) if err is None else ("rejected", "error-string")
        with virtual_files(cx, {"data.bin": blob}):
            if spec.get("scoped"):
                src = "*= p\n{\n.incbin 'data.bin'\n.dl data_bin, data_bin__size\n}\nend:\n.dl end\n"
            else:
                src = "*= p\n.incbin 'data.bin'\nend:\n.dl data_bin, data_bin__size, end\n"
            return _outcome(assemble(src, {"p": p}, rom=spec["rom"]))
    raise ValueError(t)


def check(spec, cx, out):
    t = spec["t"]
    if out[0] != "ok":
        return [("valid-directive-assembles", z3.BoolVal(False))]
    blocks = out[1]
    if len(blocks) != 1:
        return [("single-contiguous-block", z3.BoolVal(False))]
    addr, data = blocks[0]
    res = []
    if t in ("values", "mixed"):
        if t == "values":
            w = WIDTH[spec["kind"]]
            exp = []
            for i in range(spec["n"]):
                exp += le_bytes(cx.t(f"v{i}"), w)
        else:
            a, b, c, d = (cx.t(x) for x in "abcd")
            exp = le_bytes(a, 1) + le_bytes(b, 1) + le_bytes(c, 2) + le_bytes(d, 3) + le_bytes(a, 3) + le_bytes(b, 3) + le_bytes(a + b, 2) + le_bytes(c - d, 2)
        end = 0x8000 + len(exp)
        res.append(("bytes-little-endian-truncated", eq_bytes(data, exp + le_bytes(B(end), 3))))
        res.append(("offset", bv(addr) == 0))
        return res
    if t == "shadow":
        exp = []
        for e in SHADOW[spec["k"]][1]:
            exp.append(cx.t(e) if isinstance(e, str) else (cx.t("a") + e[1]) & 0xFF if isinstance(e, tuple) else B(e))
        res.append(("nearest-definition-emitted", eq_bytes(data, exp)))
        res.append(("offset", bv(addr) == 0))
        return res
    if t == "refs":
        p, w = cx.t("p"), WIDTH[spec["kind"]]
        lbl = p if spec["dir"] == "back" else p + w
        res.append(("reference-bytes", eq_bytes(data, le_bytes(lbl, w))))
        res.append(("offset", bv(addr) == rom_offset(spec["rom"], p)))
        return res
    if t == "ascii-q":
        # the literal's characters as written (the backslash of an escaped quote included), 7-bit ones emitted
        from vf.oraclex import oracle_cases

        items = [cx.t(f"c{i}") if c == "?" else ord(c) for i, c in enumerate(spec["tpl"])]

        def expect_q(decide):
            exp = []
            for c in items:
                if isinstance(c, int):
                    if c < 0x80:
                        exp.append(B(c))
                elif decide(z3.ULT(c, 0x80)):
                    exp.append(z3.ZeroExt(56, c))
            return exp

        conds = []
        for assum, exp in oracle_cases(cx, expect_q):
            pre = z3.And(*assum) if assum else z3.BoolVal(True)
            if exp is None:
                continue
            want = exp + le_bytes(B(0x8000 + len(exp)), 3)
            conds.append(z3.Not(pre) if len(blist(data)) != len(want) else z3.Implies(pre, eq_bytes(data, want)))
        return [("ascii-bytes", z3.And(*conds) if conds else z3.BoolVal(True))]
    if t == "ascii":
        # ASCII characters are emitted as their byte; characters >= 0x80 have no ASCII byte and are
        # left out -- and the directive occupies exactly the bytes it emits (the `end` label follows them)
        from vf.oraclex import oracle_cases

        def expect(decide):
            exp = []
            for i in range(spec["n"]):
                c = cx.t(f"c{i}")
                if decide(z3.ULT(c, 0x80)):
                    exp.append(z3.ZeroExt(56, c))
            return exp

        conds = []
        for assum, exp in oracle_cases(cx, expect):
            pre = z3.And(*assum) if assum else z3.BoolVal(True)
            if exp is None:
                continue
            end = 0x8000 + len(exp)
            want = exp + le_bytes(B(end), 3)
            if len(blist(data)) != len(want):
                conds.append(z3.Not(pre))
            else:
                conds.append(z3.Implies(pre, eq_bytes(data, want)))
        res.append(("ascii-bytes", z3.And(*conds) if conds else z3.BoolVal(True)))
        return res
    if t == "incbin":
        p, n = cx.t("p"), cx.t("n")
        rom = spec["rom"]
        segs = segs_of(data)
        endaddr = advance(rom, p, n)
        tail = le_bytes(p, 3) + le_bytes(n, 3) + le_bytes(endaddr, 3)
        if spec.get("reloc"):
            r = cx.t("r")
            tail = le_bytes(r, 3) + le_bytes(n, 3) + le_bytes(advance(rom, r, n), 3)
        if spec.get("scoped"):
            tail = le_bytes(p, 3) + le_bytes(n, 3) + le_bytes(advance(rom, p, n + 6), 3)
        conds = []
        if not cx.symbolic:
            from vf.context import blob_content

            nv = z3.simplify(n).as_long()
            want = [B(x) for x in blob_content("data.bin", nv)] + tail
            res.append(("file-bytes-verbatim-then-symbols", eq_bytes(data, want)))
            res.append(("offset", bv(addr) == rom_offset(rom, p)))
            return res
        if segs and segs[0][0] == "blob":
            _, name, start, length = segs[0]
            conds += [z3.BoolVal(name == "data.bin"), start == 0, length == n]
            rest = segs[1:]
        else:
            # n == 0 on this path: no file bytes
            conds.append(n == 0)
            rest = segs
        if len(rest) == 1 and rest[0][0] == "b" and len(rest[0][1]) == len(tail):
            conds += [a == b for a, b in zip(rest[0][1], tail)]
        else:
            conds.append(z3.BoolVal(False))
        res.append(("file-bytes-verbatim-then-symbols", z3.And(*conds)))
        res.append(("offset", bv(addr) == rom_offset(rom, p)))
        return res
    raise ValueError(t)
