"""C08 -- names resolve lexically; scopes isolate and named scopes export.

Symbolic: the start address p and one distinct value hole per constant definition, so that
"resolved to the wrong definition" is satisfiable whenever two definitions can differ.
Enumerated: scope trees (block, named scope, macro application, loop iteration) with every
placement of definitions and references from a pattern family, plus seeded random trees;
rename / unrelated-definition twins."""
import copy
import random

import z3

from harness.common import assemble, blist
from oracles import env as E
from oracles import layout as L
from symx import bv

PROPERTY = "C08"

META = {
    "bounds": {
        "quick": "20 placement patterns (shadowing, same-named sibling scopes, named scopes inside loop iterations and inside a macro applied several times, definitions inside taken / untaken .if and else branches (not scopes), fallback, isolation, sibling reuse, forward references, depth-3 nesting, qualified exports before/after/inside blocks) x 4 scope kinds x 3 definition kinds (label, =, :=), rename twins and unrelated-definition twins; start address and every constant value (-2^23 .. 2^24-1) symbolic",
        "thorough": "same plus VERIF_SEED-drawn 600 random scope trees (depth <= 3, <= 5 scopes, names a,b)",
    },
    "outside": ["scope trees beyond the bound", "duplicate definitions of a name in one scope", "qualified names with more than one dot (not expressible in the source language)", "references with inferred-width instructions (C02)"],
    "oracle": "oracles/env.py: independent lexical environment model; label addresses from the textbook advance formula",
    "stubs": [],
    "assumptions": [],
}

OPTS = {"quick": {"deadline_s": 300}, "thorough": {"deadline_s": 900}}

KINDS = ["block", "named", "macro", "loop"]
DEFKINDS = ["label", "eq", "assign"]


class Gen:
    def __init__(self):
        self.n = 0
        self.m = 0

    def d(self, name, kind):
        self.n += 1
        return ("def", name, kind, f"V{self.n - 1}")

    def s(self, kind, body, name=None):
        self.m += 1
        if kind == "block":
            return ("scope", "block", None, body, None)
        if kind == "named":
            return ("scope", "named", name or f"ns{self.m}", body, None)
        if kind == "macro":
            return ("scope", "macro", f"mac{self.m}", body, [])
        return ("scope", "loop", f"i{self.m}", body, 1)


def R(name):
    return ("ref", name)


def patterns():
    """(id, tree) for every pattern x scope kind x definition kinds."""
    out = []
    for K in KINDS:
        for dk in DEFKINDS:
            for dk2 in DEFKINDS:
                g = Gen()
                out.append((f"shadow/{K}/{dk}-{dk2}", [g.d("a", dk), g.s(K, [g.d("a", dk2), R("a")]), R("a")]))
                g = Gen()
                out.append((f"shadow-late/{K}/{dk}-{dk2}", [g.d("a", dk), g.s(K, [R("a"), g.d("a", dk2)]), R("a")]))
                g = Gen()
                out.append((f"sibling-reuse/{K}/{dk}-{dk2}", [g.s(K, [g.d("a", dk), R("a")]), g.s(K, [R("a"), g.d("a", dk2)])]))
            g = Gen()
            out.append((f"fallback/{K}/{dk}", [g.d("a", dk), g.s(K, [R("a")])]))
            g = Gen()
            out.append((f"fallback-forward/{K}/{dk}", [g.s(K, [R("a")]), g.d("a", dk)]))
            g = Gen()
            out.append((f"isolation/{K}/{dk}", [g.s(K, [g.d("a", dk)]), R("a")]))
            g = Gen()
            out.append((f"sibling-invisible/{K}/{dk}", [g.s(K, [g.d("a", dk)]), g.s("block", [R("a")])]))
            g = Gen()
            out.append((f"forward-in-scope/{K}/{dk}", [g.s(K, [R("a"), g.d("a", dk), R("a")])]))
            for K2 in ("block", "named", "loop"):
                g = Gen()
                out.append((f"depth3/{K}-{K2}/{dk}", [g.d("a", "eq"), g.s(K, [g.s(K2, [R("a")]), g.d("a", dk)]), R("a")]))
                g = Gen()
                out.append((f"depth3-inner-def/{K}-{K2}/{dk}", [g.d("a", "eq"), g.s(K, [g.s(K2, [g.d("a", dk), R("a")]), R("a")])]))
    # macro arguments that are names spelled like the macro's own parameters (swapped, forward, shadowed)
    for dk in DEFKINDS:
        for dk2 in DEFKINDS:
            g = Gen()
            body = [R("lo"), R("hi")]
            if dk2 == "label":
                # an argument may refer to a LABEL defined later (constants are evaluated in order)
                out.append((f"macro-arg-names/swapped-forward/{dk}-{dk2}", [g.d("lo", dk), ("scope", "macro", "pair", body, [("lo", "hi", ("name", "hi")), ("hi", "lo", ("name", "lo"))]), g.d("hi", dk2)]))
            g = Gen()
            out.append((f"macro-arg-names/swapped/{dk}-{dk2}", [g.d("lo", dk), g.d("hi", dk2), ("scope", "macro", "pair", body, [("lo", "hi", ("name", "hi")), ("hi", "lo", ("name", "lo"))])]))
            g = Gen()
            out.append((f"macro-arg-names/in-block/{dk}-{dk2}", [g.d("lo", dk), g.s("block", [g.d("hi", dk2), ("scope", "macro", "pair2", [R("lo"), R("hi")], [("lo", "hi", ("name", "hi")), ("hi", "lo", ("name", "lo"))])])]))
    # a named scope inside a construct that is expanded several times: its exports stay in that expansion
    for dk in DEFKINDS:
        g = Gen()
        out.append((f"export-in-loop-iterations/{dk}", [("scope", "loop", "it", [g.s("named", [g.d("a", dk), R("a")], "ns"), R("ns.a")], 2), g.s("block", [R("ns.a")])]))
        g = Gen()
        body = [g.s("named", [g.d("a", dk)], "ns"), R("ns.a")]
        out.append((f"export-in-macro-applied-twice/{dk}", [("scope", "macro", "mk", body, []), R("ns.a"), ("scope", "macro", "mk", body, []), g.s("named", [("scope", "macro", "mk", body, []), R("ns.a")], "outer")]))
    # two named scopes of the same name under one parent are two scopes: what the first defines is not visible, unqualified, in the second
    for dk in DEFKINDS:
        for dk2 in DEFKINDS:
            g = Gen()
            out.append((f"same-named-siblings/{dk}-{dk2}", [g.d("a", dk), g.s("named", [g.d("a", dk2), R("a")], "gfx"), g.s("named", [R("a"), g.d("b", "eq")], "gfx"), R("gfx.a"), R("gfx.b")]))
    # conditionals are not scopes: what the selected branch defines belongs to the enclosing scope
    for dk in DEFKINDS:
        for br in ("then-taken", "else-taken", "then-untaken", "else-untaken"):
            C = lambda body: ("scope", "cond", None, body, br)  # noqa: E731
            g = Gen()
            out.append((f"cond-transparent/{br}/{dk}", [C([g.d("a", dk), R("a")]), R("a"), g.s("block", [R("a")])]))
            g = Gen()
            out.append((f"cond-shadow/{br}/{dk}", [g.d("a", "eq"), g.s("block", [C([g.d("a", dk)]), R("a")]), R("a")]))
            for K in ("named", "macro", "loop"):
                g = Gen()
                out.append((f"cond-in-{K}/{br}/{dk}", [g.d("a", "assign"), g.s(K, [R("a"), C([g.d("a", dk), C([R("a")])])], "ns"), R("a")] + ([R("ns.a")] if K == "named" and br.endswith("-taken") else [])))
    for dk in DEFKINDS:
        g = Gen()
        out.append((f"export-after/{dk}", [g.s("named", [g.d("a", dk), R("a")], "ns"), R("ns.a")]))
        g = Gen()
        out.append((f"export-before/{dk}", [R("ns.a"), g.s("named", [g.d("a", dk)], "ns")]))
        g = Gen()
        out.append((f"export-into-block/{dk}", [g.s("block", [g.s("named", [g.d("a", dk)], "ns"), R("ns.a")])]))
        g = Gen()
        out.append((f"export-not-beyond-block/{dk}", [g.s("block", [g.s("named", [g.d("a", dk)], "ns")]), R("ns.a")]))
        g = Gen()
        out.append((f"export-from-inner-scope/{dk}", [g.s("named", [g.d("a", dk)], "ns"), g.s("block", [g.s("loop", [R("ns.a")])])]))
        g = Gen()
        out.append((f"export-vs-local/{dk}", [g.d("a", "eq"), g.s("named", [g.d("a", dk)], "ns"), R("ns.a"), R("a")]))
        g = Gen()
        out.append((f"export-not-nested-block/{dk}", [g.s("named", [g.s("block", [g.d("a", dk)])], "ns"), R("ns.a")]))
        g = Gen()
        out.append((f"two-named/{dk}", [g.s("named", [g.d("a", dk)], "n1"), g.s("named", [g.d("a", dk), R("n1.a")], "n2"), R("n2.a"), R("n1.a")]))
    return out


def random_tree(rnd):
    g = Gen()

    def items(depth, budget):
        out = []
        defined = set()
        for _ in range(rnd.randint(1, 3)):
            c = rnd.random()
            if c < 0.35:
                nm = rnd.choice("ab")
                if nm in defined:
                    continue  # duplicate definitions in one scope are outside the claim
                defined.add(nm)
                out.append(g.d(nm, rnd.choice(DEFKINDS)))
            elif c < 0.7 or depth >= 3 or budget[0] <= 0:
                nm = rnd.choice(["a", "b", "a", "b", "ns1.a", "ns2.b"])
                out.append(R(nm))
            else:
                budget[0] -= 1
                K = rnd.choice(KINDS)
                out.append(g.s(K, items(depth + 1, budget), name=rnd.choice(["ns1", "ns2"]) if K == "named" else None))
        return out

    return items(0, [5])


def defines(items, name):
    for it in items:
        if it[0] == "def" and it[1] == name:
            return True
    return False


def rename(items, old, new, top=True):
    """Rename the definition of `old` made directly in this item list and every reference that it
    binds (references inside inner scopes that re-define the name are left alone)."""
    out = []
    for it in items:
        if it[0] == "def" and it[1] == old and top is not None:
            out.append(("def", new, it[2], it[3]))
        elif it[0] == "ref" and it[1] == old:
            out.append(("ref", new))
        elif it[0] == "scope":
            _, kind, name, body, extra = it
            shadows = defines(body, old) or (kind == "loop" and name == old)
            out.append(it if shadows else ("scope", kind, name, rename(body, old, new, None), extra))
        else:
            out.append(it)
    return out


def rename_innermost(tree):
    """Twin: rename `a` in the first scope (not the top level) that defines it."""
    done = [False]

    def go(items):
        out = []
        for it in items:
            if it[0] == "scope" and not done[0]:
                _, kind, name, body, extra = it
                if defines(body, "a") and kind != "named":
                    done[0] = True
                    out.append(("scope", kind, name, rename(body, "a", "zz"), extra))
                else:
                    out.append(("scope", kind, name, go(body), extra))
            else:
                out.append(it)
        return out

    t = go(tree)
    return t if done[0] else None


def with_opref(tree):
    """Variant: the first reference inside a scope becomes an inferred-width instruction operand
    (`lda name`), which the assembler already evaluates while labels are resolved."""
    done = [False]

    def go(items, depth):
        out = []
        for it in items:
            if it[0] == "ref" and depth > 0 and not done[0] and "." not in it[1]:
                done[0] = True
                out.append(("ref", it[1], "op"))
            elif it[0] == "scope":
                out.append(("scope", it[1], it[2], go(it[3], depth + 1), it[4]))
            else:
                out.append(it)
        return out

    t = go(tree, 0)
    return t if done[0] else None


def has_opref(tree):
    for it in tree:
        if it[0] == "ref" and len(it) > 2:
            return True
        if it[0] == "scope" and has_opref(it[3]):
            return True
    return False


def jobs(tier, seed):
    out = []
    for pid, tree in patterns():
        out.append({"id": f"pattern/{pid}", "tree": tree})
        ot = with_opref(tree)
        if ot is not None:
            out.append({"id": f"opref/{pid}", "tree": ot})
        if pid.startswith(("shadow/block/", "shadow/macro/", "isolation/", "export-vs-local/")):
            # printing the symbol table (Program(dump_symbols=True) / --dump-symbols) must not change anything
            out.append({"id": f"dump-symbols/{pid}", "tree": tree, "dump": True})
        tw = None if pid.startswith("cond-") else rename_innermost(tree)
        if tw is not None:
            out.append({"id": f"rename-twin/{pid}", "tree": tree, "twin": tw})
        g = Gen()
        g.n = 50
        extra = [("scope", "block", None, [("def", "q", "eq", "V50"), ("def", "a", "assign", "V51")], None)]
        out.append({"id": f"unrelated-def-twin/{pid}", "tree": tree, "twin": tree + extra})
    if tier == "thorough":
        rnd = random.Random(seed * 613 + 11)
        for k in range(600):
            out.append({"id": f"random/{k:03d}", "tree": random_tree(rnd)})
    return out


def _tuple(t):
    return tuple(_tuple(x) if isinstance(x, list) else x for x in t) if isinstance(t, (list, tuple)) else t


def source(tree):
    tree = [_tuple(x) for x in tree]
    macros = E.macro_definitions(tree)
    return "*= p\n" + "".join(m + "\n" for m in macros.values()) + E.render(tree) + "\n"


def const_holes(tree, acc=None):
    acc = set() if acc is None else acc
    for it in tree:
        if it[0] == "def" and it[2] != "label":
            acc.add(it[3])
        elif it[0] == "scope":
            const_holes(it[3], acc)
    return acc


def run(spec, cx):
    g = L.GEOMS["low"]
    p = cx.int("p", 0, 0xFFFFFF)
    cx.assume(z3.And(L.in_window(g, cx.t("p")), (cx.t("p") & 0xFFFF) <= 0xF000))
    trees = [spec["tree"]] + ([spec["twin"]] if spec.get("twin") else [])
    holes = set()
    for t in trees:
        holes |= const_holes(t)
    syms = {"p": p}
    for h in sorted(holes):
        syms[h] = cx.int(h, -(1 << 23), 0xFFFFFF)     # negative constants too (`.dl` emits the low 24 bits)
    outs = []
    for t in trees:
        r = assemble(source(t), dict(syms), dump_symbols=bool(spec.get("dump")))
        if r[0] == "ok":
            outs.append(("ok", [(a, b) for a, b in r[1]]))
        else:
            outs.append(("rejected", "error-string" if r[0] == "error" else type(r[1]).__name__))
    return tuple(outs)


def expected(tree, cx, opwidth=2):
    tree = [_tuple(x) for x in tree]
    events, labels = E.evaluate(tree, lambda h: cx.t(h), cx.t("p"), lambda a, n: a + n, opwidth)
    if any(ev[0] in ("ref", "opref") and ev[1] is E.UNDEFINED for ev in events):
        return None
    out = []
    for ev in events:
        if ev[0] == "bytes":
            out += [L.B(x) for x in ev[1]]
        else:
            tag = ev[1]
            if isinstance(tag, tuple) and tag[0] == "const":
                tag = L.B(tag[1])
            if ev[0] == "opref":
                out += [L.B({1: 0xA5, 2: 0xAD, 3: 0xAF}[opwidth])] + [(tag >> (8 * k)) & 0xFF for k in range(opwidth)]
            else:
                out += [(tag >> (8 * k)) & 0xFF for k in range(3)]
    return out


def _check_one(out, exp, p):
    if exp is None:
        return ("undefined-reference-rejected", z3.BoolVal(out[0] == "rejected"))
    if out[0] != "ok":
        return ("valid-program-assembles", z3.BoolVal(False))
    blocks = out[1]
    if not exp:
        return ("resolves-to-innermost-definition", z3.BoolVal(len(blocks) == 0))
    if len(blocks) != 1:
        return ("resolves-to-innermost-definition", z3.BoolVal(False))
    bs = blist(blocks[0][1])
    if len(bs) != len(exp):
        return ("resolves-to-innermost-definition", z3.BoolVal(False))
    return ("resolves-to-innermost-definition", z3.And(bv(blocks[0][0]) == L.offset(L.GEOMS["low"], p), *[a == b for a, b in zip(bs, exp)]))


def check(spec, cx, out):
    p = cx.t("p")
    if has_opref([_tuple(x) for x in spec["tree"]]):
        exp0 = expected(spec["tree"], cx, 2)
        if exp0 is None:
            return [_check_one(out[0], None, p)]
        if out[0][0] != "ok":
            # an operand whose width is inferred is evaluated while labels are still being resolved;
            # when that early view and the final one cannot agree the assembly fails (C02): accepted
            return [("inferred-width-reference-may-be-rejected", z3.BoolVal(True))]
        blocks = out[0][1]
        total = sum(len(blist(b)) for _, b in blocks)
        w = total - (len(exp0) - 3) - 1
        if w not in (1, 2, 3):
            return [("resolves-to-innermost-definition", z3.BoolVal(False))]
        return [_check_one(out[0], expected(spec["tree"], cx, w), p)]
    res = [_check_one(out[0], expected(spec["tree"], cx), p)]
    if spec.get("twin"):
        a, b = out[0], out[1]
        if a[0] != b[0]:
            res.append(("twin-same-outcome", z3.BoolVal(False)))
        elif a[0] == "ok":
            same = len(a[1]) == len(b[1])
            conds = [z3.BoolVal(same)]
            if same:
                for (a1, d1), (a2, d2) in zip(a[1], b[1]):
                    x1, x2 = blist(d1), blist(d2)
                    conds.append(z3.BoolVal(len(x1) == len(x2)))
                    conds.append(bv(a1) == bv(a2))
                    conds += [x == y for x, y in zip(x1, x2)]
            res.append(("twin-same-output", z3.And(*conds)))
    return res
