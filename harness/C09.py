"""C09 -- macro application equals the body inlined with parameters bound.

Symbolic: start address p and the values of all constants.  Enumerated: macro definitions
(0-3 parameters; bodies with data, explicit-size instructions, local labels, nested calls, code
splices), argument expressions (literal, constant, expression, backward label, forward label,
a name equal to a parameter name, code block), 1-3 applications, conditionally terminated
recursion.  Decision: the program and its mechanically inlined twin (harness/mprog.py) are both
run through the real assembler symbolically; outputs must be equal for all values."""
import itertools

import z3

from harness import mprog as M
from harness.common import RecWriter, blist, new_program
from oracles import layout as L
from symx import bv

PROPERTY = "C09"

META = {
    "bounds": {
        "quick": "7 macro body shapes x argument kinds {literal, constant, expression, backward label, forward label, name equal to a parameter, code block} (all pairs for 2-parameter macros) x 1-3 applications, nested calls, recursion depth <= 3, undefined macro / missing argument; p and constants symbolic",
        "thorough": "same plus all argument-kind triples for the 3-parameter body and applications inside blocks / named scopes / loops",
    },
    "outside": ["macro bodies beyond the enumerated shapes", "instructions with inferred width inside macro bodies (C02)", "recursion deeper than 3"],
    "oracle": "twin program: harness/mprog.py writes every application out by hand (call-site temporaries for the argument values, body in a fresh block, code blocks spliced); real assembler run on both",
    "stubs": [],
    "assumptions": [],
}

OPTS = {"quick": {"deadline_s": 300}, "thorough": {"deadline_s": 900}}

ARGS = {
    "lit": ("expr", "0x12"),
    "const": ("expr", "k0"),
    "expr": ("expr", "k0 + k1 * 2"),
    "back": ("expr", "back"),
    "fwd": ("expr", "fwd"),
    "pname": ("expr", "a"),      # a name that coincides with the first parameter's name
    "pname2": ("expr", "b + 1"),
}
CODE = ("code", [("raw", "nop"), ("raw", ".db k1")])

BODIES = {
    "db": (["a"], [("raw", ".db a")]),
    "two": (["a", "b"], [("raw", ".dw a + 1"), ("raw", ".db b")]),
    "local": (["a"], [("raw", "loc:"), ("raw", ".db a"), ("raw", ".dl loc")]),
    "instr": (["a", "b"], [("raw", "lda.w #a"), ("raw", "sta.l b")]),
    "three": (["a", "b", "c"], [("raw", ".dl a"), ("raw", ".dl b"), ("raw", ".dl c")]),
    "splice": (["a", "c"], [("splice", "c"), ("raw", ".db a"), ("splice", "c")]),
    "noargs": ([], [("raw", "loc:"), ("raw", ".dl loc")]),
    # the second parameter is needed while the body is expanded (.if / .for bound / :=), the first may be a label
    "cond": (["a", "b"], [("if", "b", [("raw", ".db 1")], [("raw", ".db 2")]), ("raw", ".dl a")]),
    "loopn": (["a", "b"], [("for", "k", "0", "b", [("raw", ".db k")]), ("raw", ".dl a")]),
    "assign": (["a", "b"], [("raw", "x := b + 1"), ("raw", ".db x"), ("raw", ".dl a")]),
}
EARLY_ARGS = {"zero": ("expr", "0"), "lit": ("expr", "2"), "assigned": ("expr", "kc"), "assigned-expr": ("expr", "kc - 3"),
              # names whose value at the call site is 0 / -1 (as opposed to the literal)
              "assigned-zero": ("expr", "kz"), "assigned-zero-expr": ("expr", "kz + 2"), "assigned-minus-one": ("expr", "kn + 2")}


def prelude():
    return [("raw", "*= p"), ("raw", "kc := 3"), ("raw", "kz := 0"), ("raw", "kn := 0 - 1"), ("raw", "k0 = V0"), ("raw", "k1 = V1"), ("raw", "a = V2"), ("raw", "b = V3"), ("raw", "back:"), ("raw", ".db 0xEE")]


def postlude():
    return [("raw", "fwd:"), ("raw", ".db 0xEF"), ("raw", ".dl fwd, back")]


def programs(tier):
    out = []
    kinds = list(ARGS)
    # single-parameter bodies: every argument kind, 1 and 3 applications
    for body in ("db", "local"):
        params, b = BODIES[body]
        for k in kinds:
            for napp in (1, 3):
                prog = prelude() + [("macrodef", "m", params, b)] + [("call", "m", [ARGS[k]])] * napp + postlude()
                out.append((f"{body}/{k}/x{napp}", prog))
    for body in ("two", "instr"):
        params, b = BODIES[body]
        for k1, k2 in itertools.product(kinds, repeat=2):
            prog = prelude() + [("macrodef", "m", params, b), ("call", "m", [ARGS[k1], ARGS[k2]])] + postlude()
            out.append((f"{body}/{k1}-{k2}", prog))
    params, b = BODIES["three"]
    triples = list(itertools.product(kinds, repeat=3)) if tier == "thorough" else [t for i, t in enumerate(itertools.product(kinds, repeat=3)) if i % 9 == 0]
    for t in triples:
        prog = prelude() + [("macrodef", "m", params, b), ("call", "m", [ARGS[x] for x in t])] + postlude()
        out.append((f"three/{'-'.join(t)}", prog))
    params, b = BODIES["splice"]
    for k in kinds:
        prog = prelude() + [("macrodef", "m", params, b), ("call", "m", [ARGS[k], CODE])] + postlude()
        out.append((f"splice/{k}", prog))
    prog = prelude() + [("macrodef", "m", *BODIES["noargs"]), ("call", "m", []), ("call", "m", [])] + postlude()
    out.append(("noargs/x2", prog))
    for body in ("cond", "loopn", "assign"):
        params, b = BODIES[body]
        for k1 in ("lit", "const", "back", "fwd", "pname"):
            for k2, a2 in EARLY_ARGS.items():
                prog = prelude() + [("macrodef", "m", params, b), ("call", "m", [ARGS[k1], a2]), ("raw", "kc := 9"), ("raw", "kz := 5"), ("raw", "kn := 6"), ("call", "m", [ARGS["lit"], a2])] + postlude()
                out.append((f"{body}/{k1}-{k2}", prog))
    # nested calls
    for k in kinds:
        prog = prelude() + [("macrodef", "inner", ["a"], [("raw", "loc:"), ("raw", ".dw a"), ("raw", ".dl loc")]),
                            ("macrodef", "outer", ["b", "a"], [("call", "inner", [("expr", "b + 1")]), ("raw", ".db a"), ("call", "inner", [("expr", "a")])]),
                            ("call", "outer", [ARGS[k], ARGS["lit"]]), ("call", "outer", [ARGS["const"], ARGS[k]])] + postlude()
        out.append((f"nested/{k}", prog))
    # code block that itself applies a macro and defines a label
    prog = prelude() + [("macrodef", "m", ["a"], [("raw", ".db a")]), ("macrodef", "w", ["c"], [("splice", "c"), ("raw", "rts")]),
                        ("call", "w", [("code", [("raw", "l2:"), ("call", "m", [("expr", "k0")]), ("raw", ".dl l2")])])] + postlude()
    out.append(("code-with-call", prog))
    # an integer parameter named like the code-block parameter of the macro whose code argument applies it
    prog = prelude() + [("macrodef", "w", ["code"], [("splice", "code"), ("raw", "rts")]), ("macrodef", "m", ["code"], [("raw", ".db code"), ("raw", ".dw code + k0")]),
                        ("call", "w", [("code", [("call", "m", [("expr", "5")]), ("call", "m", [("expr", "k1")])])]), ("call", "m", [("expr", "7")])] + postlude()
    out.append(("code-param-name-reused-as-int", prog))
    prog = prelude() + [("macrodef", "w", ["a", "code"], [("raw", ".db a"), ("splice", "code")]), ("macrodef", "m", ["code", "a"], [("raw", ".db code, a")]),
                        ("call", "w", [("expr", "k0"), ("code", [("call", "m", [("expr", "a"), ("expr", "k1")])])])] + postlude()
    out.append(("code-param-name-reused-swapped", prog))
    # a code block spliced several times that re-assigns a variable it reads
    for n in (2, 3):
        prog = prelude() + [("macrodef", "rep", ["step"], [("splice", "step")] * n + [("raw", ".db 0x99")]), ("raw", "n := 1"),
                            ("call", "rep", [("code", [("raw", "n := n * 2"), ("raw", ".db n")])]), ("raw", ".db n")] + postlude()
        out.append((f"splice-reassign/x{n}", prog))
    prog = prelude() + [("macrodef", "rep", ["step"], [("splice", "step"), ("raw", "q := 7"), ("splice", "step")]), ("raw", "q := 1"),
                        ("call", "rep", [("code", [("raw", ".db q + k0"), ("raw", ".dw q + k0")])])] + postlude()
    out.append(("splice-same-expression-different-value", prog))
    # a macro applied inside its own code-block argument
    prog = prelude() + [("macrodef", "framed", ["c"], [("raw", ".db 0xF0"), ("splice", "c"), ("raw", ".db 0xF1")]),
                        ("call", "framed", [("code", [("raw", ".db 1"), ("call", "framed", [("code", [("raw", ".db 2")])]), ("raw", ".db 3")])])] + postlude()
    out.append(("self-in-own-code/noargs", prog))
    prog = prelude() + [("macrodef", "framed", ["a", "c"], [("raw", ".db a"), ("splice", "c"), ("raw", ".dw a")]),
                        ("call", "framed", [("expr", "k0"), ("code", [("call", "framed", [("expr", "k0"), ("code", [("call", "framed", [("expr", "k0"), ("code", [("raw", "nop")])])])])])])] + postlude()
    out.append(("self-in-own-code/same-args", prog))
    # a code-block parameter spliced from a scope nested inside the application that received it, and forwarded to another macro
    inner = [("raw", "php"), ("raw", ".db k0 & 0xff")]
    for wname, wrapb in {"block": lambda b: [("block", b)], "for": lambda b: [("for", "q", "0", "2", b)], "scope": lambda b: [("scope", "inner_ns", b)],
                         "if": lambda b: [("if", "1", b, None)], "block-in-for": lambda b: [("for", "q", "0", "2", [("block", b)])]}.items():
        prog = prelude() + [("macrodef", "w", ["a", "body"], [("raw", ".db a")] + wrapb([("splice", "body"), ("raw", ".db 0x60")]) + [("splice", "body")]),
                            ("call", "w", [("expr", "1"), ("code", inner)]), ("call", "w", [("expr", "k1 & 0xff"), ("code", [("raw", "nop")])])] + postlude()
        out.append((f"splice-in-nested/{wname}", prog))
    prog = prelude() + [("macrodef", "ram_patch", ["addr", "code"], [("raw", ".dl addr"), ("splice", "code"), ("raw", "rtl")]),
                        ("macrodef", "ram_routine", ["addr", "body"], [("call", "ram_patch", [("expr", "addr"), ("code", [("raw", "php"), ("splice", "body"), ("raw", "plp")])])]),
                        ("call", "ram_routine", [("expr", "0x7e2000"), ("code", [("raw", "lda.w #k0"), ("raw", "sta.l fwd")])]),
                        ("call", "ram_routine", [("expr", "back"), ("code", [("raw", "nop")])])] + postlude()
    out.append(("splice-forwarded", prog))
    # an argument spelled exactly like its parameter, the variable re-assigned between and after the applications
    prog = prelude() + [("macrodef", "entry", ["idx"], [("raw", ".db idx"), ("raw", ".dw idx + k0")]), ("raw", "idx := 0"),
                        ("call", "entry", [("expr", "idx")]), ("raw", "idx := idx + 1"), ("call", "entry", [("expr", "idx")]), ("raw", "idx := 7"),
                        ("for", "n", "0", "2", [("call", "entry", [("expr", "idx")]), ("raw", "idx := idx + 1")])] + postlude()
    out.append(("param-named-variable-reassigned", prog))
    prog = prelude() + [("macrodef", "inner", ["idx"], [("raw", ".db idx")]), ("macrodef", "outer", ["idx"], [("call", "inner", [("expr", "idx")]), ("raw", "idx := idx + 1"), ("call", "inner", [("expr", "idx")])]),
                        ("raw", "idx := 3"), ("call", "outer", [("expr", "idx")]), ("raw", "idx := 9"), ("call", "outer", [("expr", "idx + 1")])] + postlude()
    out.append(("param-named-variable-forwarded", prog))
    # a macro defined again: applications after the second definition expand the second body
    prog = prelude() + [("macrodef", "hook", ["a"], [("raw", ".db a")]), ("call", "hook", [("expr", "1")]), ("macrodef", "hook", ["a"], [("raw", ".dw a + k0"), ("raw", "nop")]),
                        ("call", "hook", [("expr", "2")]), ("block", [("macrodef", "hook", ["a", "b"], [("raw", ".db b, a")]), ("call", "hook", [("expr", "3"), ("expr", "4")])]), ("call", "hook", [("expr", "5"), ("expr", "6")])] + postlude()
    out.append(("macro-redefined", prog))
    prog = prelude() + [("if", "1", [("macrodef", "dbg", [], [("raw", ".db 0xD0")])], [("macrodef", "dbg", [], [("raw", ".db 0xD1")])]), ("include", "lib.s", [("macrodef", "dbg", [], [("raw", ".db 0xD2")]), ("macrodef", "libm", ["a"], [("raw", ".db a")])]),
                        ("call", "dbg", []), ("macrodef", "libm", ["a"], [("raw", ".dw a")]), ("call", "libm", [("expr", "k1")])] + postlude()
    out.append(("macro-redefined-after-include", prog))
    # recursion terminated by .if
    for depth in (0, 1, 3):
        prog = prelude() + [("macrodef", "rec", ["n"], [("if", "n", [("raw", ".db n"), ("call", "rec", [("expr", "n - 1")])], None)]),
                            ("call", "rec", [("expr", str(depth))])] + postlude()
        out.append((f"recursive/{depth}", prog))
    # applications inside other scopes
    wrappers = {"block": lambda body: [("block", body)], "scope": lambda body: [("scope", "ns", body)], "for": lambda body: [("for", "i", "0", "2", body)]}
    for wname, wrap in wrappers.items():
        for k in (kinds if tier == "thorough" else ["const", "fwd", "pname"]):
            prog = prelude() + [("macrodef", "m", *BODIES["local"])] + wrap([("call", "m", [ARGS[k]]), ("raw", ".db 0x77")]) + [("call", "m", [ARGS["lit"]])] + postlude()
            out.append((f"in-{wname}/{k}", prog))
    for name, prog in composites().items():
        out.append((f"composite/{name}", prog))
    # failures
    out.append(("undefined-macro", prelude() + [("call", "nosuch", [ARGS["lit"]])] + postlude()))
    out.append(("missing-argument", prelude() + [("macrodef", "m", *BODIES["two"]), ("call", "m", [ARGS["lit"]])] + postlude()))
    out.append(("undefined-macro-under-taken-if", prelude() + [("if", "1", [("raw", ".db 1"), ("call", "nosuch", [ARGS["lit"]])], [("raw", ".db 2")])] + postlude()))
    out.append(("undefined-macro-in-recursive-step", prelude() + [("macrodef", "rec", ["n"], [("if", "n", [("raw", ".db n"), ("call", "stepp", [("expr", "n")]), ("call", "rec", [("expr", "n - 1")])], None)]), ("call", "rec", [("expr", "2")])] + postlude()))
    out.append(("missing-all-arguments", prelude() + [("macrodef", "m", *BODIES["db"]), ("call", "m", [])] + postlude()))
    return out


def composites():
    """Programs of the size and mix a real patch project has (several `*=` blocks, macros applying
    macros, loops inside macros, named scopes exporting labels used from other scopes and from macro
    arguments, forward and backward references across blocks, relocated RAM routines, includes that
    define macros).  p and the V constants are symbolic as everywhere in this harness."""
    R = lambda t: ("raw", t)  # noqa: E731
    out = {}
    store = ("macrodef", "store", ["addr", "val"], [R("lda.w #val"), R("sta.l addr")])
    fill = ("macrodef", "fill", ["base", "n"], [("for", "i", "0", "n", [("call", "store", [("expr", "base + i * 2"), ("expr", "i")])])])
    out["gfx-init"] = [
        R("*= p"), R("kc := 3"), R("k0 = V0"), R("k1 = V1"), store, fill,
        ("scope", "gfx", [R("init:"), ("call", "fill", [("expr", "0x7e2000"), ("expr", "3")]), R("rts"),
                          R("table:"), ("for", "j", "0", "4", [R(".dw table + j * 2")]), R("done:")]),
        R("*= p + 0x1000"), R("main:"), R("jsr.w gfx.init"), R(".dl gfx.table, fwd, gfx.done"),
        ("call", "store", [("expr", "gfx.table"), ("expr", "k0")]), ("call", "store", [("expr", "fwd"), ("expr", "k1 & 0xff")]),
        ("call", "fill", [("expr", "0x7e3000"), ("expr", "kc - 1")]),
        R("fwd:"), R(".db 1"), R(".dl main"),
    ]
    # a macro body that moves the position, defines a local label and refers forward to a label behind the application
    entry = ("macrodef", "entry", ["at", "id"], [R("*= at"), R("here:"), R(".db id"), R(".dl here, tail")])
    out["blocks-by-macro"] = [
        R("*= p"), R("k0 = V0"), R("k1 = V1"), entry, R("first:"), R(".dw k0"),
        ("call", "entry", [("expr", "p + 0x100"), ("expr", "1")]), R(".dl first"),
        ("call", "entry", [("expr", "p + 0x200"), ("expr", "k1 & 0x7f")]),
        ("call", "entry", [("expr", "p + 0x80"), ("expr", "3")]),
        R("tail:"), R(".dl tail, first"),
    ]
    # a loop whose body moves the position; every iteration has its own label of the same name
    out["loop-moves-position"] = [
        R("*= p"), R("k0 = V0"), R("base := p + 0x400"),
        ("for", "i", "0", "3", [R("*= base + i * 0x40"), R("slot:"), R(".dw slot, k0 + i"), ("if", "i & 1", [R(".db 0xAA")], [R(".dw 0xBBBB")]), R("slot_end:"), R(".dl slot_end")]),
        R("after:"), R(".dl after"),
    ]
    # named scopes: one inside a macro body (its exports stay in the application's block), one at top level whose exported
    # labels are used from a sibling scope, from inside a macro body and as macro arguments (backward and forward)
    mk = ("macrodef", "mkroutine", ["v"], [("scope", "rt", [R("start:"), R("lda.w #v"), R("rts"), R("end:")]), R(".dl rt.start, rt.end")])
    use = ("macrodef", "callit", ["target"], [R("jsr.w target"), R(".dl target, lib.tail")])
    out["scope-in-macro"] = [
        R("*= p"), R("k0 = V0"), mk, use,
        ("call", "callit", [("expr", "lib.entry")]),
        ("scope", "lib", [R("entry:"), R("nop"), ("call", "mkroutine", [("expr", "k0")]), R("tail:"), R("rts")]),
        ("block", [("call", "mkroutine", [("expr", "0x1234")]), ("call", "callit", [("expr", "lib.tail")])]),
        ("scope", "other", [("call", "mkroutine", [("expr", "k0 + 1")]), R("x:"), ("call", "callit", [("expr", "lib.entry + 1")]), R(".dl lib.entry")]),
        R(".dl other.x, lib.tail"),
    ]
    # a routine relocated to RAM, referenced from ROM before and after; data right before instructions
    out["relocated-routine"] = [
        R("*= p"), R("k0 = V0"), store, R("copy_src:"), R(".dl ram_routine, ram_end"),
        ("call", "store", [("expr", "ram_routine"), ("expr", "k0")]),
        R("@= 0x7e1000"), R("ram_routine:"), R(".db 1, 2, 3"), R("lda.w #k0"), R("jmp.w ram_routine"), R("ram_end:"),
        R("*= p + 0x300"), R("back_in_rom:"), R(".dl back_in_rom, ram_routine, copy_src"), R("jsr.l ram_routine"),
    ]
    # an included file that defines macros and labels; the includer applies them before and after other definitions
    inc = [("macrodef", "inc_store", ["a"], [R("sta.l a"), R("inc_local:"), R(".dl inc_local")]), R("inc_label:"), R(".dw 0x1111")]
    out["include-defines-macros"] = [
        R("*= p"), R("k0 = V0"), R("before:"), ("include", "defs.s", inc),
        ("call", "inc_store", [("expr", "inc_label")]), ("call", "inc_store", [("expr", "later")]),
        ("block", [("call", "inc_store", [("expr", "before")])]), R("later:"), R(".dl inc_label, later"),
    ]
    # macros three levels deep with a code-block argument that itself applies a macro and loops
    out["three-levels"] = [
        R("*= p"), R("k0 = V0"), R("k1 = V1"),
        ("macrodef", "leaf", ["x"], [R(".db x")]),
        ("macrodef", "mid", ["x", "body"], [("call", "leaf", [("expr", "x")]), ("splice", "body"), ("call", "leaf", [("expr", "x + 1")])]),
        ("macrodef", "top", ["n"], [("for", "q", "0", "n", [("call", "mid", [("expr", "q"), ("code", [("call", "leaf", [("expr", "0x55")]), R("tl:"), R(".dl tl")])])])]),
        ("call", "top", [("expr", "2")]), R("m1:"), ("call", "mid", [("expr", "k0 & 0xff"), ("code", [("for", "r", "0", "2", [("call", "leaf", [("expr", "r")])])])]),
        ("call", "top", [("expr", "1")]), R(".dl m1"),
    ]
    return out


def jobs(tier, seed):
    return [{"id": pid, "prog": prog} for pid, prog in programs(tier)]


def _norm(prog):
    def f(x):
        if isinstance(x, list) and x and isinstance(x[0], str):
            return tuple(f(y) for y in x)
        if isinstance(x, list):
            return [f(y) for y in x]
        return x

    return [f(s) for s in prog]


def _loop_level_labels(stmts, in_loop=False, macros=None, acc=None):
    import re

    acc = set() if acc is None else acc
    macros = {} if macros is None else macros
    for st in stmts:
        k = st[0]
        if k == "raw" and in_loop:
            for ln in st[1].split("\n"):
                m = re.fullmatch(r"\s*([A-Za-z_][A-Za-z_0-9]*):\s*", ln)
                if m:
                    acc.add(m.group(1))
        elif k == "for":
            _loop_level_labels(st[4], True, macros, acc)
        elif k == "if":
            _loop_level_labels(st[2], in_loop, macros, acc)
            if st[3]:
                _loop_level_labels(st[3], in_loop, macros, acc)
        elif k == "macrodef":
            _loop_level_labels(st[3], False, macros, acc)
        elif k in ("block",):
            _loop_level_labels(st[1], False, macros, acc)
        elif k in ("scope", "include"):
            _loop_level_labels(st[2], False if k == "scope" else in_loop, macros, acc)
        elif k == "call":
            for a in st[2]:
                if a[0] == "code":
                    _loop_level_labels(a[1], False, macros, acc)
    return acc


def _asm(src, syms, files=None, cx=None):
    p = new_program(syms=syms)
    w = RecWriter()
    try:
        if files:
            from harness.common import virtual_files

            with virtual_files(cx, files):
                err = p.assemble_string_with_emitter(src, "m.s", w)
        else:
            err = p.assemble_string_with_emitter(src, "m.s", w)
    except Exception as e:  # noqa: BLE001
        return ("rejected", type(e).__name__)
    if err is not None:
        return ("rejected", "error-string")
    return ("ok", w.blocks, p.resolver.get_all_labels())


def run(spec, cx):
    g = L.GEOMS["low"]
    p = cx.int("p", 0, 0xFFFFFF)
    cx.assume(z3.And(L.in_window(g, cx.t("p")), (cx.t("p") & 0xFFFF) <= (0xC000 if spec["id"].startswith("composite/") else 0xF000)))
    syms = {"p": p}
    for h in ("V0", "V1", "V2", "V3"):
        syms[h] = cx.int(h, 0, 0xFFFF)
    prog = _norm(spec["prog"])
    files = {}
    orig = _asm(M.render(prog, "", files) + "\n", dict(syms), files, cx)
    try:
        twin_prog = M.Expander(early=("p", "V0", "V1", "V2", "V3") if spec["id"].startswith("composite/") else ()).expand(prog)
    except (KeyError, IndexError) as e:
        return (orig, ("must-be-rejected", type(e).__name__))
    twin = _asm(M.render(twin_prog) + "\n", dict(syms))
    return (orig, twin)


def check(spec, cx, out):
    orig, twin = out
    if twin[0] == "must-be-rejected":
        return [("undefined-macro-or-missing-argument-rejected", z3.BoolVal(orig[0] == "rejected"))]
    if twin[0] != "ok":
        return [("twin-assembles", z3.BoolVal(False))]
    if orig[0] != "ok":
        return [("program-with-macros-assembles", z3.BoolVal(False))]
    b1, b2 = orig[1], twin[1]
    conds = [z3.BoolVal(len(b1) == len(b2))]
    for (a1, d1), (a2, d2) in zip(b1, b2):
        x1, x2 = blist(d1), blist(d2)
        conds.append(z3.BoolVal(len(x1) == len(x2)))
        conds.append(bv(a1) == bv(a2))
        conds += [x == y for x, y in zip(x1, x2)]
    res = [("same-output-as-inlined-twin", z3.And(*conds))]
    # labels defined directly in a `.for` body live in iteration scopes, which the label listing leaves out;
    # the twin's per-iteration blocks are ordinary scopes: those names are not compared
    hidden = _loop_level_labels(_norm(spec["prog"]))
    l1, l2 = orig[2], [(n, v) for n, v in twin[2] if n not in hidden]
    lc = [z3.BoolVal(len(l1) == len(l2))]
    for (n1, v1), (n2, v2) in zip(l1, l2):
        lc.append(z3.BoolVal(n1 == n2))
        lc.append(bv(v1) == bv(v2))
    res.append(("same-labels-as-inlined-twin", z3.And(*lc)))
    return res
