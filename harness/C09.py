"""C09 -- macro application equals the body inlined with parameters bound.

Symbolic: start address p and the values of all constants.  Enumerated: macro definitions
(0-3 parameters; bodies with data, explicit-size instructions, local labels, nested calls, code
splices), argument expressions (literal, constant, expression, backward label, forward label,
a name equal to a parameter name, code block), 1-3 applications, conditionally terminated
recursion.  Decision: the program and its mechanically inlined twin (harness/mprog.py) are both
run through the real assembler symbolically; outputs must be equal for all values."""
import itertools

import z3

from harness import mprog as M
from harness.common import RecWriter, blist, new_program
from oracles import layout as L
from symx import bv

PROPERTY = "C09"

META = {
    "bounds": {
        "quick": "7 macro body shapes x argument kinds {literal, constant, expression, backward label, forward label, name equal to a parameter, code block} (all pairs for 2-parameter macros) x 1-3 applications, nested calls, recursion depth <= 3, undefined macro / missing argument; p and constants symbolic",
        "thorough": "same plus all argument-kind triples for the 3-parameter body and applications inside blocks / named scopes / loops",
    },
    "outside": ["macro bodies beyond the enumerated shapes", "instructions with inferred width inside macro bodies (C02)", "recursion deeper than 3"],
    "oracle": "twin program: harness/mprog.py writes every application out by hand (call-site temporaries for the argument values, body in a fresh block, code blocks spliced); real assembler run on both",
    "stubs": [],
    "assumptions": [],
}

OPTS = {"quick": {"deadline_s": 300}, "thorough": {"deadline_s": 900}}

ARGS = {
    "lit": ("expr", "0x12"),
    "const": ("expr", "k0"),
    "expr": ("expr", "k0 + k1 * 2"),
    "back": ("expr", "back"),
    "fwd": ("expr", "fwd"),
    "pname": ("expr", "a"),      # a name that coincides with the first parameter's name
    "pname2": ("expr", "b + 1"),
}
CODE = ("code", [("raw", "nop"), ("raw", ".db k1")])

BODIES = {
    "db": (["a"], [("raw", ".db a")]),
    "two": (["a", "b"], [("raw", ".dw a + 1"), ("raw", ".db b")]),
    "local": (["a"], [("raw", "loc:"), ("raw", ".db a"), ("raw", ".dl loc")]),
    "instr": (["a", "b"], [("raw", "lda.w #a"), ("raw", "sta.l b")]),
    "three": (["a", "b", "c"], [("raw", ".dl a"), ("raw", ".dl b"), ("raw", ".dl c")]),
    "splice": (["a", "c"], [("splice", "c"), ("raw", ".db a"), ("splice", "c")]),
    "noargs": ([], [("raw", "loc:"), ("raw", ".dl loc")]),
    # the second parameter is needed while the body is expanded (.if / .for bound / :=), the first may be a label
    "cond": (["a", "b"], [("if", "b", [("raw", ".db 1")], [("raw", ".db 2")]), ("raw", ".dl a")]),
    "loopn": (["a", "b"], [("for", "k", "0", "b", [("raw", ".db k")]), ("raw", ".dl a")]),
    "assign": (["a", "b"], [("raw", "x := b + 1"), ("raw", ".db x"), ("raw", ".dl a")]),
}
EARLY_ARGS = {"zero": ("expr", "0"), "lit": ("expr", "2"), "assigned": ("expr", "kc"), "assigned-expr": ("expr", "kc - 3")}


def prelude():
    return [("raw", "*= p"), ("raw", "kc := 3"), ("raw", "k0 = V0"), ("raw", "k1 = V1"), ("raw", "a = V2"), ("raw", "b = V3"), ("raw", "back:"), ("raw", ".db 0xEE")]


def postlude():
    return [("raw", "fwd:"), ("raw", ".db 0xEF"), ("raw", ".dl fwd, back")]


def programs(tier):
    out = []
    kinds = list(ARGS)
    # single-parameter bodies: every argument kind, 1 and 3 applications
    for body in ("db", "local"):
        params, b = BODIES[body]
        for k in kinds:
            for napp in (1, 3):
                prog = prelude() + [("macrodef", "m", params, b)] + [("call", "m", [ARGS[k]])] * napp + postlude()
                out.append((f"{body}/{k}/x{napp}", prog))
    for body in ("two", "instr"):
        params, b = BODIES[body]
        for k1, k2 in itertools.product(kinds, repeat=2):
            prog = prelude() + [("macrodef", "m", params, b), ("call", "m", [ARGS[k1], ARGS[k2]])] + postlude()
            out.append((f"{body}/{k1}-{k2}", prog))
    params, b = BODIES["three"]
    triples = list(itertools.product(kinds, repeat=3)) if tier == "thorough" else [t for i, t in enumerate(itertools.product(kinds, repeat=3)) if i % 9 == 0]
    for t in triples:
        prog = prelude() + [("macrodef", "m", params, b), ("call", "m", [ARGS[x] for x in t])] + postlude()
        out.append((f"three/{'-'.join(t)}", prog))
    params, b = BODIES["splice"]
    for k in kinds:
        prog = prelude() + [("macrodef", "m", params, b), ("call", "m", [ARGS[k], CODE])] + postlude()
        out.append((f"splice/{k}", prog))
    prog = prelude() + [("macrodef", "m", *BODIES["noargs"]), ("call", "m", []), ("call", "m", [])] + postlude()
    out.append(("noargs/x2", prog))
    for body in ("cond", "loopn", "assign"):
        params, b = BODIES[body]
        for k1 in ("lit", "const", "back", "fwd", "pname"):
            for k2, a2 in EARLY_ARGS.items():
                prog = prelude() + [("macrodef", "m", params, b), ("call", "m", [ARGS[k1], a2]), ("raw", "kc := 9"), ("call", "m", [ARGS["lit"], a2])] + postlude()
                out.append((f"{body}/{k1}-{k2}", prog))
    # nested calls
    for k in kinds:
        prog = prelude() + [("macrodef", "inner", ["a"], [("raw", "loc:"), ("raw", ".dw a"), ("raw", ".dl loc")]),
                            ("macrodef", "outer", ["b", "a"], [("call", "inner", [("expr", "b + 1")]), ("raw", ".db a"), ("call", "inner", [("expr", "a")])]),
                            ("call", "outer", [ARGS[k], ARGS["lit"]]), ("call", "outer", [ARGS["const"], ARGS[k]])] + postlude()
        out.append((f"nested/{k}", prog))
    # code block that itself applies a macro and defines a label
    prog = prelude() + [("macrodef", "m", ["a"], [("raw", ".db a")]), ("macrodef", "w", ["c"], [("splice", "c"), ("raw", "rts")]),
                        ("call", "w", [("code", [("raw", "l2:"), ("call", "m", [("expr", "k0")]), ("raw", ".dl l2")])])] + postlude()
    out.append(("code-with-call", prog))
    # an integer parameter named like the code-block parameter of the macro whose code argument applies it
    prog = prelude() + [("macrodef", "w", ["code"], [("splice", "code"), ("raw", "rts")]), ("macrodef", "m", ["code"], [("raw", ".db code"), ("raw", ".dw code + k0")]),
                        ("call", "w", [("code", [("call", "m", [("expr", "5")]), ("call", "m", [("expr", "k1")])])]), ("call", "m", [("expr", "7")])] + postlude()
    out.append(("code-param-name-reused-as-int", prog))
    prog = prelude() + [("macrodef", "w", ["a", "code"], [("raw", ".db a"), ("splice", "code")]), ("macrodef", "m", ["code", "a"], [("raw", ".db code, a")]),
                        ("call", "w", [("expr", "k0"), ("code", [("call", "m", [("expr", "a"), ("expr", "k1")])])])] + postlude()
    out.append(("code-param-name-reused-swapped", prog))
    # a code block spliced several times that re-assigns a variable it reads
    for n in (2, 3):
        prog = prelude() + [("macrodef", "rep", ["step"], [("splice", "step")] * n + [("raw", ".db 0x99")]), ("raw", "n := 1"),
                            ("call", "rep", [("code", [("raw", "n := n * 2"), ("raw", ".db n")])]), ("raw", ".db n")] + postlude()
        out.append((f"splice-reassign/x{n}", prog))
    prog = prelude() + [("macrodef", "rep", ["step"], [("splice", "step"), ("raw", "q := 7"), ("splice", "step")]), ("raw", "q := 1"),
                        ("call", "rep", [("code", [("raw", ".db q + k0"), ("raw", ".dw q + k0")])])] + postlude()
    out.append(("splice-same-expression-different-value", prog))
    # a macro applied inside its own code-block argument
    prog = prelude() + [("macrodef", "framed", ["c"], [("raw", ".db 0xF0"), ("splice", "c"), ("raw", ".db 0xF1")]),
                        ("call", "framed", [("code", [("raw", ".db 1"), ("call", "framed", [("code", [("raw", ".db 2")])]), ("raw", ".db 3")])])] + postlude()
    out.append(("self-in-own-code/noargs", prog))
    prog = prelude() + [("macrodef", "framed", ["a", "c"], [("raw", ".db a"), ("splice", "c"), ("raw", ".dw a")]),
                        ("call", "framed", [("expr", "k0"), ("code", [("call", "framed", [("expr", "k0"), ("code", [("call", "framed", [("expr", "k0"), ("code", [("raw", "nop")])])])])])])] + postlude()
    out.append(("self-in-own-code/same-args", prog))
    # recursion terminated by .if
    for depth in (0, 1, 3):
        prog = prelude() + [("macrodef", "rec", ["n"], [("if", "n", [("raw", ".db n"), ("call", "rec", [("expr", "n - 1")])], None)]),
                            ("call", "rec", [("expr", str(depth))])] + postlude()
        out.append((f"recursive/{depth}", prog))
    # applications inside other scopes
    wrappers = {"block": lambda body: [("block", body)], "scope": lambda body: [("scope", "ns", body)], "for": lambda body: [("for", "i", "0", "2", body)]}
    for wname, wrap in wrappers.items():
        for k in (kinds if tier == "thorough" else ["const", "fwd", "pname"]):
            prog = prelude() + [("macrodef", "m", *BODIES["local"])] + wrap([("call", "m", [ARGS[k]]), ("raw", ".db 0x77")]) + [("call", "m", [ARGS["lit"]])] + postlude()
            out.append((f"in-{wname}/{k}", prog))
    # failures
    out.append(("undefined-macro", prelude() + [("call", "nosuch", [ARGS["lit"]])] + postlude()))
    out.append(("missing-argument", prelude() + [("macrodef", "m", *BODIES["two"]), ("call", "m", [ARGS["lit"]])] + postlude()))
    out.append(("missing-all-arguments", prelude() + [("macrodef", "m", *BODIES["db"]), ("call", "m", [])] + postlude()))
    return out


def jobs(tier, seed):
    return [{"id": pid, "prog": prog} for pid, prog in programs(tier)]


def _norm(prog):
    def f(x):
        if isinstance(x, list) and x and isinstance(x[0], str):
            return tuple(f(y) for y in x)
        if isinstance(x, list):
            return [f(y) for y in x]
        return x

    return [f(s) for s in prog]


def _asm(src, syms):
    p = new_program(syms=syms)
    w = RecWriter()
    try:
        err = p.assemble_string_with_emitter(src, "m.s", w)
    except Exception as e:  # noqa: BLE001
        return ("rejected", type(e).__name__)
    if err is not None:
        return ("rejected", "error-string")
    return ("ok", w.blocks, p.resolver.get_all_labels())


def run(spec, cx):
    g = L.GEOMS["low"]
    p = cx.int("p", 0, 0xFFFFFF)
    cx.assume(z3.And(L.in_window(g, cx.t("p")), (cx.t("p") & 0xFFFF) <= 0xF000))
    syms = {"p": p}
    for h in ("V0", "V1", "V2", "V3"):
        syms[h] = cx.int(h, 0, 0xFFFF)
    prog = _norm(spec["prog"])
    orig = _asm(M.render(prog) + "\n", dict(syms))
    try:
        twin_prog = M.Expander().expand(prog)
    except (KeyError, IndexError) as e:
        return (orig, ("must-be-rejected", type(e).__name__))
    twin = _asm(M.render(twin_prog) + "\n", dict(syms))
    return (orig, twin)


def check(spec, cx, out):
    orig, twin = out
    if twin[0] == "must-be-rejected":
        return [("undefined-macro-or-missing-argument-rejected", z3.BoolVal(orig[0] == "rejected"))]
    if twin[0] != "ok":
        return [("twin-assembles", z3.BoolVal(False))]
    if orig[0] != "ok":
        return [("program-with-macros-assembles", z3.BoolVal(False))]
    b1, b2 = orig[1], twin[1]
    conds = [z3.BoolVal(len(b1) == len(b2))]
    for (a1, d1), (a2, d2) in zip(b1, b2):
        x1, x2 = blist(d1), blist(d2)
        conds.append(z3.BoolVal(len(x1) == len(x2)))
        conds.append(bv(a1) == bv(a2))
        conds += [x == y for x, y in zip(x1, x2)]
    res = [("same-output-as-inlined-twin", z3.And(*conds))]
    l1, l2 = orig[2], twin[2]
    lc = [z3.BoolVal(len(l1) == len(l2))]
    for (n1, v1), (n2, v2) in zip(l1, l2):
        lc.append(z3.BoolVal(n1 == n2))
        lc.append(bv(v1) == bv(v2))
    res.append(("same-labels-as-inlined-twin", z3.And(*lc)))
    return res
