"""C10 -- conditional and loop directives equal the hand-expanded program.

Symbolic: condition values c,d in [-2^15, 2^15), loop bounds (small ranges, solver-driven case
split), body values, start address.  The harness decides each condition / bound on the same
shadow values (forking through the engine), writes the selected branch / unrolled iterations out
by hand (harness/mprog.py) and requires the real assembler to produce the same output for both."""
import re

import z3

from harness import mprog as M
from harness.C09 import _asm, _norm
from harness.common import blist
from oracles import layout as L
from symx import bv

PROPERTY = "C10"

META = {
    "bounds": {
        "quick": "conditions over symbolic c,d in [-32768, 32767] (value, c&1, c+1, c-d, undefined name), with/without else, labels in bodies, nesting depth 2, inside macros with the condition from a parameter; loops with symbolic bounds a in [-2,3], b in [-2,4] (from constants and macro parameters), bodies with labels, nested loops, conditionals on the loop variable",
        "thorough": "same with c,d in [-2^31, 2^31) and loop bounds a in [-3,5], b in [-3,6]",
    },
    "outside": ["loops of more than 6 iterations", "conditions using operators the directive lexer does not accept"],
    "oracle": "twin program written out by hand by harness/mprog.py (selected branch inline; one block per iteration with the loop variable bound)",
    "stubs": [],
    "assumptions": [],
}

OPTS = {"quick": {"deadline_s": 300}, "thorough": {"deadline_s": 900}}

R = lambda t: ("raw", t)  # noqa: E731


def programs():
    pre = [R("*= p"), R("start:"), R(".db 0xEE")]
    post = [R("end:"), R(".dl end, start")]
    out = {}
    conds = {"c": "c", "and": "c & 1", "plus": "c + 1", "minus": "c - d", "undef": "nosuchname", "undef-expr": "nosuchname + 1", "shift": "c >> 4"}
    for cn, ct in conds.items():
        out[f"if-else/{cn}"] = pre + [("if", ct, [R(".db 1, v")], [R(".dw 2")])] + post
        out[f"if-only/{cn}"] = pre + [("if", ct, [R(".db 1, v")], None)] + post
    out["if-labels"] = pre + [("if", "c", [R("l1:"), R(".db 1")], [R(".db 9"), R("l1:"), R(".db 2")]), R(".dl l1")] + post
    out["if-nested"] = pre + [("if", "c", [("if", "d", [R(".db 1")], [R(".db 2")]), R(".db 3")], [("if", "d", [R(".db 4")], None)])] + post
    out["if-sequence"] = pre + [("if", "c", [R(".db 1")], None), ("if", "c - 1", [R(".db 2")], [R(".db 3")]), ("if", "d", [R("x = 5")], [R("x = 6")]), R(".db x")] + post
    out["if-in-macro"] = pre + [("macrodef", "m", ["x"], [("if", "x", [R(".db 1")], [R(".db 0")]), R(".dw x")]), ("call", "m", [("expr", "c")]), ("call", "m", [("expr", "c & 1")]), ("call", "m", [("expr", "0")])] + post
    out["if-in-block"] = pre + [("block", [("if", "c", [R("l:"), R(".db 1")], [R("l:"), R(".dw 2")]), R(".dl l")])] + post
    out["for-db"] = pre + [("for", "i", "a", "b", [R(".db i")])] + post
    out["for-label"] = pre + [("for", "i", "a", "b", [R("l:"), R(".db i"), R(".dl l")])] + post
    out["for-const-bounds"] = pre + [R("lo := a"), R("hi := b"), ("for", "i", "lo", "hi + 1", [R(".dw i + v")])] + post
    out["for-nested"] = pre + [("for", "i", "0", "a2", [("for", "j", "0", "b2", [R(".db i + j")]), R(".db 0xFF")])] + post
    out["for-in-macro"] = pre + [("macrodef", "rep", ["n"], [("for", "k", "0", "n", [R(".db k")])]), ("call", "rep", [("expr", "b")]), ("call", "rep", [("expr", "2")])] + post
    out["if-on-loop-var"] = pre + [("for", "i", "0", "b2", [("if", "i & 1", [R(".db 1")], [R(".db 2")])])] + post
    out["for-bound-from-outer-var"] = pre + [("for", "i", "0", "a2", [("for", "j", "i", "b2", [R(".db j")])])] + post
    out["for-some-iterations-empty"] = pre + [("for", "i", "0", "4", [("if", "i & 1", [R(".db i")], None)]), R("after:"), R(".dl after")] + post
    out["for-empty-iterations-then-macro"] = pre + [("macrodef", "mm", ["q"], [R("ml:"), R(".db q"), R(".dl ml")]), ("for", "i", "0", "b2", [("if", "i - 1", [R(".db i")], None)]), ("call", "mm", [("expr", "v")]), ("block", [R("bl:"), R(".dl bl")])] + post
    out["for-body-only-assign"] = pre + [("for", "i", "0", "3", [R("t := i")]), ("block", [R("bl:"), R(".dw v"), R(".dl bl")])] + post
    out["for-nested-inner-empty"] = pre + [("for", "i", "0", "3", [("for", "j", "0", "i - 1", [R(".db j")])]), ("scope", "ns", [R("sl:"), R(".db v")]), R(".dl ns.sl")] + post
    out["if-false-without-else-then-scopes"] = pre + [("block", [("if", "c", [R(".db 1")], None)]), ("block", [R("bl:"), R(".dl bl")])] + post
    out["if-empty-then"] = pre + [("if", "c", [], [R(".db 2")]), R(".db 3")] + post
    out["if-comment-only-then"] = pre + [("if", "c", [R("; nothing here")], [R(".dw 2")]), R(".db 3")] + post
    out["if-empty-else"] = pre + [("if", "c", [R(".db 1")], []), R(".db 3")] + post
    out["if-both-empty"] = pre + [("if", "c", [], []), R(".db 3")] + post
    out["if-empty-then-in-macro-in-loop"] = pre + [("macrodef", "mm", ["x"], [("if", "x", [], [R(".db 0xAA")]), R(".db x")]), ("for", "i", "0", "b2", [("call", "mm", [("expr", "i")])])] + post
    out["for-in-if"] = pre + [("if", "c", [("for", "i", "0", "b2", [R(".db i")])], [R(".db 7")])] + post
    # condition / bound names defined two or more scopes up, with symbol-less scopes in between
    out["if-two-blocks-deep"] = pre + [("block", [("block", [("if", "c", [R(".db 1, v")], [R(".dw 2")])])])] + post
    out["for-two-blocks-deep"] = pre + [("block", [("block", [("for", "i", "0", "b2", [R(".db i")])])])] + post
    out["if-in-paramless-macro-in-block"] = pre + [("macrodef", "pm", [], [("if", "c", [R(".db 1")], [R(".db 2")]), ("for", "i", "0", "b2", [R(".db i")])]), ("block", [("call", "pm", [])]), ("scope", "ns", [("block", [("call", "pm", [])])])] + post
    out["if-in-empty-named-scopes"] = pre + [("scope", "na", [("scope", "nb", [("if", "c - d", [R(".db 1")], [R(".db 2")]), ("for", "i", "a", "b", [R(".db i")])])])] + post
    out["if-in-loop-in-empty-block"] = pre + [R("kk := 1"), ("block", [("block", [("for", "i", "0", "2", [("block", [("if", "kk", [R(".db 1")], [R(".db 2")]), ("if", "c", [R(".db 3")], None)])])])])] + post
    out["else-definitions-visible-after"] = pre + [("if", "c", [R("x = 1"), R("la:"), R(".db 1")], [R("x = 2"), R(".db 9"), R("la:"), R(".db 2")]), R(".dl la"), R(".db x"), ("block", [R(".dl la"), R(".db x")])] + post
    # programs of realistic size: macros applying macros inside loops with symbolic bounds, conditionals choosing
    # between `*=` blocks, named-scope exports used across them, forward references
    store = ("macrodef", "store", ["addr", "val"], [R("lda.w #val"), R("sta.l addr")])
    fill = ("macrodef", "fill", ["base", "n"], [("for", "i", "0", "n", [("call", "store", [("expr", "base + i * 2"), ("expr", "i")]), ("if", "i - 1", [], [R(".db 0x11")])])])
    out["composite/table-builder"] = pre + [
        store, fill,
        ("scope", "gfx", [R("init:"), ("call", "fill", [("expr", "0x7e2000"), ("expr", "b2")]), R("rts"), R("table:"),
                          ("for", "j", "0", "a2", [R(".dw table + j * 2"), ("if", "j & 1", [R(".db 0xAA")], None)]), R("done:")]),
        ("if", "c", [R("*= p + 0x800"), R("alt:"), R(".dl gfx.table, alt")], [R(".dl gfx.done")]),
        ("call", "fill", [("expr", "0x7e3000"), ("expr", "2")]), R(".dl gfx.init, end"),
    ] + post
    out["composite/conditional-blocks"] = pre + [
        R("mode := c & 3"), store,
        ("for", "k", "0", "3", [("if", "k - mode", [("call", "store", [("expr", "0x7e0000 + k"), ("expr", "k")])], [R("*= p + 0x400 + k * 0x20"), R("sel:"), R(".dl sel"), ("call", "store", [("expr", "sel"), ("expr", "v")])])]),
        ("if", "mode - 3", [("scope", "tail", [R("t0:"), R(".dw v"), ("for", "q", "0", "b2", [R(".db q")]), R("t1:")]), R(".dl tail.t0, tail.t1")], [R(".db 0x33")]),
    ] + post
    # a named scope in a loop body: its exports belong to the iteration
    out["for-named-scope-in-body"] = pre + [("for", "i", "0", "b2", [("scope", "row", [R("cell:"), R(".db i"), R("rend:")]), R(".dl row.cell, row.rend")]), R("after:"), R(".dl after")] + post
    out["for-named-scope-in-macro-in-body"] = pre + [("macrodef", "mkrow", ["x"], [("scope", "row", [R("cell:"), R(".db x")]), R(".dl row.cell")]),
                                                      ("for", "i", "0", "3", [("call", "mkrow", [("expr", "i")]), ("if", "i & 1", [("scope", "odd", [R("o:"), R(".db v")]), R(".dl odd.o")], None)])] + post
    # plain loop bodies whose inferred-width operands / data cross a width boundary between iterations
    out["for-inferred-width"] = pre + [("for", "i", "0", "3", [R("lda #i * 0x80"), R("lda i * 0x8000"), R(".db i"), R("ldx #i * 0xff + 1")]), R("after:"), R(".dl after")] + post
    out["for-inferred-width-symbolic"] = pre + [R("w := c & 0x1ff"), ("for", "i", "0", "b2", [R("lda #w + i * 0x100"), R("cmp w + i")]), R("after:"), R(".dl after")] + post
    # a macro definition in a branch that is not taken / a loop that does not run has no effect
    emit = lambda b: ("macrodef", "emit", [], [R(f".db {b}")])  # noqa: E731
    out["macro-defined-in-untaken-branch"] = pre + [emit("0x11"), ("if", "c", [emit("0x22")], [R("nop")]), ("call", "emit", []), ("if", "d", [R("nop")], [emit("0x33")]), ("call", "emit", []),
                                                   ("for", "i", "0", "b2", [emit("0x44")]), ("call", "emit", []), ("if", "nosuchname", [emit("0x55")], None), ("call", "emit", [])] + post
    out["for-empty-then-code"] = pre + [("for", "i", "3", "b2", [R(".db i")]), R(".db 0x55")] + post
    return out


def jobs(tier, seed):
    return [{"id": k, "prog": v, "wide": tier == "thorough"} for k, v in programs().items()]


class Env:
    """Evaluates condition / bound texts on the harness's own (shadow) values."""

    def __init__(self, cx, values):
        self.cx, self.values = cx, values

    def value(self, text, consts):
        env = dict(self.values)
        env.update(consts)
        names = set(re.findall(r"[A-Za-z_][A-Za-z_0-9.]*", text))
        for n in names:
            if n not in env:
                return None  # undefined name
        return eval(text, {"__builtins__": {}}, env)  # noqa: S307

    def decide_if(self, text, consts):
        v = self.value(text, consts)
        if v is None:
            return False
        return bool(v != 0)

    def loop_bounds(self, ta, tb, consts):
        import symx

        a, b = self.value(ta, consts), self.value(tb, consts)
        if self.cx.symbolic:
            a, b = symx.concretize(a), symx.concretize(b)
        return int(a), int(b)


def run(spec, cx):
    g = L.GEOMS["low"]
    p = cx.int("p", 0, 0xFFFFFF)
    cx.assume(z3.And(L.in_window(g, cx.t("p")), (cx.t("p") & 0xFFFF) <= 0xF000))
    wide = spec.get("wide")
    lim = (1 << 31) if wide else (1 << 15)
    text = M.render(_norm(spec["prog"]))
    syms = {"p": p}
    names = set(re.findall(r"[A-Za-z_][A-Za-z_0-9]*", text))
    if "c" in names:
        syms["c"] = cx.int("c", -lim, lim - 1)
    if "d" in names:
        syms["d"] = cx.int("d", -lim, lim - 1)
    if "v" in names:
        syms["v"] = cx.int("v", 0, 0xFF)
    if "a" in names:
        syms["a"] = cx.int("a", -3 if wide else -2, 5 if wide else 3)
    if "b" in names:
        syms["b"] = cx.int("b", -3 if wide else -2, 6 if wide else 4)
    if "a2" in names:
        syms["a2"] = cx.int("a2", 0, 3)
    if "b2" in names:
        syms["b2"] = cx.int("b2", 0, 3)
    prog = _norm(spec["prog"])
    env = Env(cx, {k: v for k, v in syms.items() if k != "p"})
    twin_prog = M.Expander(env.decide_if, env.loop_bounds).expand(prog)
    orig = _asm(text + "\n", dict(syms))
    twin = _asm(M.render(twin_prog) + "\n", dict(syms))
    return (orig, twin)


def check(spec, cx, out):
    orig, twin = out
    if twin[0] != "ok":
        return [("twin-assembles", z3.BoolVal(False))]
    if orig[0] != "ok":
        return [("program-assembles", z3.BoolVal(False))]
    b1, b2 = orig[1], twin[1]
    conds = [z3.BoolVal(len(b1) == len(b2))]
    for (a1, d1), (a2, d2) in zip(b1, b2):
        x1, x2 = blist(d1), blist(d2)
        conds.append(z3.BoolVal(len(x1) == len(x2)))
        conds.append(bv(a1) == bv(a2))
        conds += [x == y for x, y in zip(x1, x2)]
    return [("same-output-as-hand-expanded-twin", z3.And(*conds))]
