"""C11 -- IPS output is well formed and patches exactly the written blocks.

Symbolic: block address A, block LENGTH L (the block is a blob of symbolic length), copier flag.
The real IPSWriter loop is unrolled by execution; the produced file (sequence of written pieces)
is parsed by the independent reader oracles/ips.py."""
import z3

from harness.common import B, W
from oracles.ips import EOF_MARK, Malformed, read_ips
from symx import FuelExhausted, bv

PROPERTY = "C11"

MAXA = (1 << 24) + 1024

META = {
    "bounds": {
        "quick": "single block: address in [0, 2^24+1024], length in [0, 4*65535+2] (up to 5-6 records), copier flag symbolic; sequences of 2 blocks with lengths <= 65535+2; a block written again after another one (A, B, A)",
        "thorough": "single block: length in [0, 6*65535+2]; sequences of 2 and 3 blocks with lengths <= 2*65535+2",
    },
    "outside": ["block contents (unconstrained blob: the writer never inspects them)", "more than 3 blocks per file", "lengths above the stated bound", "run-length records (the writer never produces them)"],
    "oracle": "oracles/ips.py: independent IPS reader + tiling conditions written from the property text",
    "stubs": ["output file = recorder object collecting write() calls"],
    "assumptions": [],
}

OPTS = {"quick": {"deadline_s": 400, "max_ticks": 400}, "thorough": {"deadline_s": 2400, "max_ticks": 800, "solver_timeout_ms": 180000}}


def jobs(tier, seed):
    out = []
    single = 4 * 65535 + 2 if tier == "quick" else 6 * 65535 + 2
    for copier in (0, 1):
        out.append({"id": f"single/copier{copier}", "n": 1, "maxlen": single, "copier": copier})
    seqmax = 65535 + 2 if tier == "quick" else 2 * 65535 + 2
    for copier in (0, 1):
        out.append({"id": f"seq2/copier{copier}", "n": 2, "maxlen": seqmax, "copier": copier})
    if tier == "thorough":
        out.append({"id": "seq3/copier0", "n": 3, "maxlen": 65535 + 2, "copier": 0})
        out.append({"id": "seq3/copier1", "n": 3, "maxlen": 65535 + 2, "copier": 1})
    # the same block written again after another one: every write produces its records, in write order
    for copier in (0, 1):
        out.append({"id": f"rewrite/copier{copier}", "n": 2, "maxlen": 65535 + 2, "copier": copier, "order": [0, 1, 0]})
    out.append({"id": "symbolic-copier-flag", "n": 1, "maxlen": 65535 + 2, "copier": None})
    return out


class Rec:
    def __init__(self):
        self.pieces = []

    def write(self, b):
        self.pieces.append(b)


def run(spec, cx):
    from a816.writers import IPSWriter

    copier = bool(spec["copier"]) if spec["copier"] is not None else cx.bool("copier")
    f = Rec()
    w = IPSWriter(f, copier)
    blocks = []
    for i in range(spec["n"]):
        A = cx.int(f"A{i}", 0, MAXA)
        L = cx.int(f"L{i}", 0, spec["maxlen"])
        blocks.append((A, L))
    try:
        w.begin()
        done = 0
        for i in (spec.get("order") or range(len(blocks))):
            A, L = blocks[i]
            try:
                w.write_block(cx.blob(f"blk{i}", L), A)
            except Exception as e:  # noqa: BLE001
                return ("refused", i, type(e).__name__, f.pieces)
            done += 1
        w.end()
    except FuelExhausted:
        return ("nonterminating",)
    return ("ok", f.pieces)


def on_timeout(spec, cx):
    return ["terminates"]


def _delta(spec, cx):
    if spec["copier"] is None:
        return z3.If(cx.t("copier"), B(0x200), B(0))
    return B(0x200 if spec["copier"] else 0)


def check(spec, cx, out):
    from vf.context import blob_content

    if out[0] == "nonterminating":
        return [("terminates", z3.BoolVal(False))]
    delta = _delta(spec, cx)
    res = []
    if out[0] == "refused":
        i = out[1]
        A, L = cx.t(f"A{i}"), cx.t(f"L{i}")
        start = A + delta
        last_rec = start + z3.If(L > 0, z3.UDiv(L - 1, B(0xFFFF)) * 0xFFFF, B(0))
        # unrepresentable: a record offset beyond 24 bits, or the block itself starting on the EOF marker (a block that
        # merely covers 0x454F46 is representable: a record boundary can always be placed one byte earlier)
        res.append(("refused-only-if-unrepresentable", z3.And(L > 0, z3.Or(last_rec >= (1 << 24), start == EOF_MARK))))
        return res
    pieces = out[1]
    try:
        records, conds = read_ips(pieces)
    except Malformed as e:
        return [("well-formed:" + str(e)[:40], z3.BoolVal(False))]
    res.append(("reader-aligned", z3.And(*conds) if conds else z3.BoolVal(True)))
    # expected: the records tile block 0, then block 1, ... in write order
    ri = 0
    for wi, i in enumerate(spec.get("order") or range(spec["n"])):
        A, L = cx.t(f"A{i}"), cx.t(f"L{i}")
        cum = B(0)
        conds_i = []
        # the number of records of this block is structural on this path: consume records while
        # the block is not yet covered (decided under the path condition by the final query)
        while ri < len(records):
            if spec.get("order") and ri > 0 and cx.implied(cum == L) is True:
                break      # this write is covered; a following record of the same blob belongs to a later write of it
            off, kind, payload, size = records[ri]
            if kind != "data":
                conds_i.append(z3.BoolVal(False))
                ri += 1
                continue
            ptype, pdata = payload
            if ptype == "blob":
                if pdata.name != f"blk{i}":
                    break
                conds_i += [off == A + delta + cum, size >= 1, size <= 0xFFFF, bv(pdata.start) == cum, off < (1 << 24)]
            else:
                # concrete mode: bytes; compare with the deterministic blob content
                n = len(pdata)
                c0 = z3.simplify(cum)
                Lv = z3.simplify(L).as_long()
                if c0.as_long() >= Lv:
                    break
                want = blob_content(f"blk{i}", Lv)[c0.as_long(): c0.as_long() + n]
                got = bytes(pdata)
                conds_i += [off == A + delta + cum, B(n) >= 1, B(n) <= 0xFFFF, z3.BoolVal(got == want and c0.as_long() + n <= Lv), off < (1 << 24)]
            cum = cum + size
            ri += 1
        conds_i.append(cum == L)
        res.append((f"write{wi}-block{i}-tiled-exactly-once" if spec.get("order") else f"block{i}-tiled-exactly-once", z3.And(*conds_i)))
    res.append(("no-extra-records", z3.BoolVal(ri == len(records))))
    return res
