"""C12 -- file and command-line front ends agree with the in-memory assembler.

Symbolic: the option point itself -- format in {ips, sfc}, mapping in {low, low2, high},
copier-header flag, a `-D v=0x....` definition with symbolic hex digits -- plus the start address.
The harness case-splits on every option first, so an option the code never consults is still
compared with the in-memory result for each of its values.  Real cli_main / Program.assemble /
assemble_as_patch / exports_symbol_file run on virtual files; outputs are parsed by the independent
IPS reader."""
import logging

import z3

from harness import skel as SK
from harness.common import RecWriter, blist, new_program, virtual_files
from oracles import layout as L
from oracles.ips import Malformed, read_ips
from symx import bv

PROPERTY = "C12"

META = {
    "bounds": {
        "quick": "8 template programs + a three-block program under all 6 orders of its blocks' file offsets (one with a string literal holding a symbolic source character) x entry point {cli, file API} x the whole option lattice (2 formats x 3 mappings x copier flag, symbolic) x -D value of 4 symbolic hex digits; the -D value in 10 more spellings that int(text, 0) accepts (0X, decimal, digit separators, sign, 0o, 0b/0B, surrounding blanks); start address symbolic in the mapping's first banks; symbol file for 3 templates",
        "thorough": "10 templates, -D value of 6 hex digits, start address anywhere in the mapping's window",
    },
    "outside": ["argparse itself and the OS process boundary (replayed concretely through `python -m a816.cli`)", "--dump-symbols console output", "programs beyond the templates"],
    "oracle": "in-memory API (Program.assemble_string_with_emitter with a recording writer) under the same mapping and definitions; oracles/ips.py reader; expected label list from the layout model",
    "stubs": ["argparse.ArgumentParser.parse_args returns the harness's namespace (symbolic option values)", "logging.basicConfig no-op", "open(): virtual input / output files"],
    "assumptions": [],
}

OPTS = {"quick": {"deadline_s": 400}, "thorough": {"deadline_s": 1200}}

TEMPLATES = {
    "data": [("star", "p0", "rom"), ("db", "v"), ("label", "a"), ("dw", "v"), ("label", "b"), ("dl", "v")],
    "instr": [("star", "p0", "rom"), ("imm", "v"), ("label", "entry"), ("stal", "v"), ("nop",), ("label", "after")],
    "two-blocks": [("star", "p0", "rom"), ("dw", "v"), ("label", "first"), ("star", "p1", "rom"), ("dl", "v"), ("label", "second"), ("db", "v")],
    # three `*=` blocks: written in source order whatever the order of their file offsets (all 6 orders, see jobs)
    "three-blocks": [("star", "p0", "rom"), ("dw", "v"), ("label", "first"), ("star", "p1", "rom"), ("dl", "v"), ("label", "second"), ("star", "p2", "rom"), ("db", "v"), ("dw", "v"), ("label", "third")],
    # the same label name at the same address in two scopes (both lines belong in the symbol file)
    "dup-labels": [("star", "p0", "rom"), ("block", [("label", "same")]), ("block", [("label", "same")]), ("dw", "v"), ("scope", "ns", [("label", "same")]), ("label", "after")],
    # the -D name re-used as a macro parameter, a loop variable and a block-local symbol (the local meaning wins inside)
    "define-shadow": [("star", "p0", "rom"), ("raw", ".macro mv(v) {\n.db v\n}\nmv(5)", 1), ("raw", ".for v := 0, 2 {\n.db v\n}", 2), ("raw", "{\nv = 3\n.db v\n}", 1), ("dw", "v"), ("label", "end")],
    # the same bytes written again at the same address after another block (three records / writes, in order)
    "repeat-block": [("star", "p0", "rom"), ("db", "v"), ("star", "p1", "rom"), ("dw", "v"), ("star", "p0", "rom"), ("db", "v"), ("label", "again")],
    "scopes": [("star", "p0", "rom"), ("label", "top"), ("block", [("db", "v"), ("label", "inner")]), ("scope", "ns", [("dw", "v"), ("label", "exported")]), ("nop",)],
    "loop": [("star", "p0", "rom"), ("label", "before"), ("for", "i", 2, [("db", "v"), ("label", "inloop")]), ("label", "afterloop"), ("dw", "v")],
    "macro": [("star", "p0", "rom"), ("macro", "mm", [("abs", "v"), ("label", "local")]), ("apply", "mm"), ("label", "mid"), ("apply", "mm")],
    "reloc": [("star", "p0", "rom"), ("db", "v"), ("at", "r0", "ram"), ("label", "inram"), ("dl", "v"), ("label", "inram2")],
    "if": [("star", "p0", "rom"), ("if", 1, [("db", "v"), ("label", "taken")], [("dw", "v")]), ("if", 0, [("nop",)], [("dl", "v"), ("label", "else_taken")])],
    "empty": [("star", "p0", "rom"), ("label", "only")],
    # a string literal with a symbolic character in the source file ('?' -> hole): front ends must not rewrite the text
    "literal": [("star", "p0", "rom"), ("raw", ".ascii 'a?b'", 3), ("label", "after"), ("dw", "v")],
    "nested": [("star", "p0", "rom"), ("block", [("scope", "ns", [("label", "deep"), ("dw", "v")]), ("for", "i", 2, [("block", [("db", "v")])])]), ("label", "end")],
}
QUICK = ["data", "instr", "two-blocks", "scopes", "loop", "reloc", "literal", "define-shadow", "repeat-block"]

DEC = list(range(0x30, 0x3A))
# name -> (text before the digits, digit domain, base, sign, text after the digits, digit separator?)
SPELLINGS = {
    "0x": ("0x", sorted(ord(c) for c in "0123456789abcdefABCDEF"), 16, 1, "", False),
    "0X": ("0X", sorted(ord(c) for c in "0123456789abcdefABCDEF"), 16, 1, "", False),
    "dec": ("", DEC[1:], 10, 1, "", False),
    "dec-separator": ("", DEC[1:], 10, 1, "", True),
    "plus": ("+", DEC[1:], 10, 1, "", False),
    "minus": ("-", DEC[1:], 10, -1, "", False),
    "0o": ("0o", list(range(0x30, 0x38)), 8, 1, "", False),
    "0b": ("0b", [0x30, 0x31], 2, 1, "", False),
    "0B": ("0B", [0x30, 0x31], 2, 1, "", False),
    "blank-around": (" ", DEC[1:], 10, 1, " ", False),
    "0x-separator": ("0x", sorted(ord(c) for c in "0123456789abcdefABCDEF"), 16, 1, "", True),
}

MAPPINGS = ["low", "low2", "high"]
GEOM = {"low": "low", "low2": "low", "high": "high"}


def jobs(tier, seed):
    names = QUICK if tier == "quick" else list(TEMPLATES)
    out = []
    for n in names:
        for entry in ("cli", "file"):
            out.append({"id": f"{n}/{entry}", "tpl": n, "entry": entry, "digits": 4 if tier == "quick" else 6, "wide": tier == "thorough"})
    for sp in SPELLINGS:
        if sp != "0x":
            out.append({"id": f"define-spelling/{sp}/cli", "tpl": "data", "entry": "cli", "digits": 3, "wide": False, "spelling": sp})
    import itertools

    for order in itertools.permutations(("p0", "p1", "p2")):
        for entry in ("cli", "file"):
            out.append({"id": f"three-blocks/{''.join(x[1] for x in order)}/{entry}", "tpl": "three-blocks", "entry": entry, "digits": 2, "wide": tier == "thorough", "order": list(order)})
    for n in (names[:3] + ["dup-labels", "macro", "loop"] if tier == "quick" else names):
        out.append({"id": f"{n}/symbol-file", "tpl": n, "entry": "symfile", "digits": 2, "wide": False})
    return out


def _pick(x):
    return x.pick() if hasattr(x, "pick") else x


HEX = sorted(ord(c) for c in "0123456789abcdefABCDEF")


def position_constraints(cx, mapping, names, wide):
    """Start addresses valid under the mapping (low2 uses the 0x80+ banks)."""
    g = L.GEOMS[GEOM[mapping]]
    for nm in names:
        t = cx.t(nm)
        if nm.startswith("r"):
            cx.assume(z3.And(L.is_ram(g, t), (t & 0xFFFF) <= 0xF000))
            continue
        cx.assume(z3.And(L.in_window(g, t), L.offset(g, t) + 0x100 < L.run_size(g, t)))
        b = L.bank(t)
        if mapping == "low":
            cx.assume(b <= (0x6F if wide else 0x03))
        elif mapping == "low2":
            cx.assume(z3.And(b >= 0x80, b <= (0xCF if wide else 0x83)))
        else:
            cx.assume(z3.And(b >= 0xC0, b <= (0xFF if wide else 0xC3)))


def run(spec, cx):
    import argparse
    import types
    from pathlib import Path

    prog = TEMPLATES[spec["tpl"]]
    # the option point: the harness splits on every option first
    fmt = cx.choice("format", ["ips", "sfc"])
    mapping = cx.choice("mapping", MAPPINGS)
    copier = cx.bool("copier")
    fmt_v, map_v, cop_v = _pick(fmt), _pick(mapping), bool(copier)
    _, poss = SK.holes(prog)
    pos_syms = {}
    for name, kind in poss:
        pos_syms[name] = cx.int(name, 0, 0xFFFFFF)
    position_constraints(cx, map_v, [n for n, _ in poss], spec.get("wide"))
    if spec.get("order"):
        # file offsets of the blocks in this order, apart (so that the blocks do not overlap)
        g = L.GEOMS[GEOM[map_v]]
        seq = spec["order"]
        for a, b in zip(seq, seq[1:]):
            cx.assume(L.offset(g, cx.t(a)) + 0x10 < L.offset(g, cx.t(b)))
    # spelling of the -D value: every spelling Python's int(text, 0) accepts is a number on the command line
    pre_txt, dom, base, sign, post_txt, sep = SPELLINGS[spec.get("spelling", "0x")]
    digits = [cx.char(f"d{i}", dom) for i in range(spec["digits"])]
    body = []
    for i, d in enumerate(digits):
        if sep and i == 1:
            body.append(ord("_"))          # digit separator after the first digit
        body.append(d)
    define = cx.string([ord(c) for c in "v=" + pre_txt] + body + [ord(c) for c in post_txt])
    val = 0
    for d in digits:
        if cx.symbolic:
            import symx

            dv = symx.SInt(z3.ZeroExt(56, d), 0, 255)
            dig = symx.SInt(z3.simplify(z3.If(dv.t <= 0x39, dv.t - 0x30, z3.If(dv.t >= 0x61, dv.t - 0x57, dv.t - 0x37))), 0, 15)
        else:
            dig = int(chr(d), 16)
        val = val * base + dig
    if sign < 0:
        val = 0 - val
    src = SK.render(prog) + "\n"
    if "?" in src:
        # symbolic characters of the source text (any ASCII character but quote, backslash and newline)
        dom = [c for c in range(128) if c not in (10, 0x27, 0x5C)]   # ASCII: one emitted byte per character
        chars = [cx.char(f"s{i}", dom) if ch == "?" else ord(ch) for i, ch in enumerate(src)]
        src = cx.string(chars)
    # reference: the in-memory API under the same mapping with v as a constant
    ref_syms = dict(pos_syms)
    ref_syms["v"] = val
    pref = new_program(map_v, ref_syms)
    wref = RecWriter()
    try:
        err = pref.assemble_string_with_emitter(src, "in.s", wref)
        ref = ("ok", wref.blocks) if err is None else ("rejected", "error-string")
    except Exception as e:  # noqa: BLE001
        ref = ("rejected", type(e).__name__)
    entry = spec["entry"]
    with virtual_files(cx, {"in.s": src}, outputs=["out.bin", "out.sym"]) as vf:
        if entry == "cli":
            import a816.cli as cli

            ns = types.SimpleNamespace(
                verbose=False, output_file=Path("out.bin"), input_file=Path("in.s"), format=fmt, mapping=mapping,
                copier_header=copier, dump_symbols=False, defines=[define],
            )
            orig_parse, orig_basic, orig_program = argparse.ArgumentParser.parse_args, logging.basicConfig, cli.Program
            argparse.ArgumentParser.parse_args = lambda self, *a, **k: ns
            logging.basicConfig = lambda *a, **k: None

            def make_program(*a, **k):
                p = orig_program(*a, **k)
                for name, v in pos_syms.items():
                    p.resolver.current_scope.add_symbol(name, v)
                return p

            cli.Program = make_program
            try:
                try:
                    cli.cli_main()
                    status = ("return", None)
                except SystemExit as e:
                    status = ("exit", e.code)
                except Exception as e:  # noqa: BLE001
                    status = ("raise", type(e).__name__)
            finally:
                argparse.ArgumentParser.parse_args, logging.basicConfig, cli.Program = orig_parse, orig_basic, orig_program
        else:
            syms = dict(pos_syms)
            syms["v"] = val
            p = new_program("low", syms)
            try:
                if entry == "symfile" or fmt_v == "ips":
                    r = p.assemble_as_patch("in.s", Path("out.bin"), map_v, cop_v)
                else:
                    r = _assemble_sfc(p, map_v)
                status = ("return", r)
                if entry == "symfile":
                    p.exports_symbol_file("out.sym")
            except Exception as e:  # noqa: BLE001
                status = ("raise", type(e).__name__)
        written = vf.written("out.bin")
        symtext = vf.written("out.sym") if entry == "symfile" else None
    # the raw written operations differ in shape between the virtual (operation list) and the real
    # file system (final content): kept out of the cross-checked output
    cx.aux = (_ops(written), _ops(symtext))
    return (fmt_v, map_v, cop_v, status, ref)


def _assemble_sfc(p, mapping):
    """Program.assemble under a mapping: with a mapping argument when the API has one."""
    import inspect
    from pathlib import Path

    if "mapping" in inspect.signature(p.assemble).parameters:
        return p.assemble("in.s", Path("out.bin"), mapping)
    from a816.cpu.cpu_65c816 import RomType

    p.resolver.rom_type = {"low": RomType.low_rom, "low2": RomType.low_rom_2, "high": RomType.high_rom}[mapping]
    return p.assemble("in.s", Path("out.bin"))


def _ops(w):
    """Normalise written content to a list of ('write', data) / ('seek', pos) operations."""
    if w is None:
        return None
    if isinstance(w, (bytes, bytearray)):
        return [("write", bytes(w))]
    return [tuple(o) for o in w]


def _blocks_from_sfc(ops):
    out, pos = [], 0
    for op in ops:
        if op[0] == "seek":
            pos = op[1]
        else:
            out.append((pos, op[1]))
            pos = pos + len(op[1])
    return out


def _image(blocks):
    """address term -> byte term, later writes override (concrete addresses only)."""
    img = {}
    for a, d in blocks:
        a = z3.simplify(bv(a))
        if not z3.is_bv_value(a):
            return None
        for i, t in enumerate(blist(d)):
            img[a.as_long() + i] = t
    return img


def check(spec, cx, out):
    fmt, mapping, copier, status, ref = out
    ops, symops = cx.aux
    res = []
    ok_status = (status[0] == "return" and status[1] in (0, None)) or (status[0] == "exit" and status[1] in (0, None))
    if ref[0] != "ok":
        return [("template-valid-under-mapping", z3.BoolVal(False))]
    if not ok_status or ops is None:
        return [("front-end-assembles-what-the-in-memory-api-assembles", z3.BoolVal(False))]
    refblocks = [(bv(a), blist(d)) for a, d in ref[1]]
    if spec["entry"] == "symfile":
        return check_symfile(spec, cx, mapping, symops)
    if fmt == "ips":
        pieces = [o[1] for o in ops if o[0] == "write"]
        try:
            records, conds = read_ips(pieces)
        except Malformed as e:
            return [("ips-well-formed:" + str(e)[:30], z3.BoolVal(False))]
        delta = 0x200 if copier else 0
        cs = list(conds)
        if len(records) != len(refblocks):
            return [("same-bytes-at-same-offsets", z3.BoolVal(False))]
        for (off, kind, payload, size), (ra, rd) in zip(records, refblocks):
            if kind != "data" or payload[0] != "bytes" or len(payload[1]) != len(rd):
                return [("same-bytes-at-same-offsets", z3.BoolVal(False))]
            cs.append(off == ra + delta)
            cs += [bv(x) == y for x, y in zip(payload[1], rd)]
        res.append(("same-bytes-at-same-offsets", z3.And(*cs) if cs else z3.BoolVal(True)))
        return res
    # flat SFC image: equals the reference blocks written at their offsets (= the IPS applied to an empty image)
    if not cx.symbolic:
        content = b"".join(o[1] for o in ops if o[0] == "write")
        img = bytearray(len(content))
        end = 0
        for ra, rd in refblocks:
            a = z3.simplify(ra).as_long()
            data = bytes(z3.simplify(t).as_long() for t in rd)
            if a + len(data) > len(img):
                img.extend(b"\0" * (a + len(data) - len(img)))
            img[a: a + len(data)] = data
            end = max(end, a + len(data))
        return [("sfc-image-equals-patch-applied", z3.BoolVal(bytes(img[:end]) == content))]
    blocks = _blocks_from_sfc(ops)
    if len(blocks) != len(refblocks):
        return [("sfc-image-equals-patch-applied", z3.BoolVal(False))]
    cs = []
    for (a, d), (ra, rd) in zip(blocks, refblocks):
        ds = blist(d)
        if len(ds) != len(rd):
            return [("sfc-image-equals-patch-applied", z3.BoolVal(False))]
        cs.append(bv(a) == ra)
        cs += [x == y for x, y in zip(ds, rd)]
    res.append(("sfc-image-equals-patch-applied", z3.And(*cs) if cs else z3.BoolVal(True)))
    return res


def check_symfile(spec, cx, mapping, symops):
    """[labels] then one `bank:offset name` line per label defined outside loop iterations."""
    from symx.values import SStr

    if symops is None:
        return [("symbol-file-written", z3.BoolVal(False))]
    chars = []
    for op in symops:
        if op[0] != "write":
            continue
        d = op[1]
        if isinstance(d, (bytes, bytearray)):
            d = d.decode("utf-8")
        chars += list(SStr.of(d).c) if not isinstance(d, str) else [ord(c) for c in d]
    prog = TEMPLATES[spec["tpl"]]
    lay = L.Layout(GEOM[mapping])
    labels = []
    loop_depth = [0]

    def walk(sk):
        for st in sk:
            if st[0] == "for":
                loop_depth[0] += 1
                for _ in range(st[2]):
                    walk(st[3])
                loop_depth[0] -= 1
            elif st[0] in ("block",):
                walk(st[1])
            elif st[0] == "scope":
                walk(st[2])
            elif st[0] == "label":
                if loop_depth[0] == 0:
                    labels.append((st[1], lay.A))
            elif st[0] == "macro":
                macros[st[1]] = st[2]
            elif st[0] == "apply":
                walk(macros[st[1]])
            elif st[0] == "if":
                body = st[2] if st[1] else st[3]
                if body:
                    walk(body)
            else:
                SK.walk([st], lay, cx.t if st[0] in ("star", "at") else valf)

    macros = {}
    valf = lambda n: z3.BitVecVal(0, 64)  # noqa: E731  (data values do not matter for addresses)
    walk(prog)
    # expected text: header + lines in any order of scopes? the writer lists scope by scope in creation order;
    # the property only fixes the set of lines -> compare as a multiset of lines
    text = "".join(chr(c) if isinstance(c, int) else "\x00" for c in chars)
    lines = text.split("\n")
    if not lines or lines[0] != "[labels]":
        return [("symbol-file-header", z3.BoolVal(False))]
    body = [ln for ln in lines[1:] if ln != ""]
    if len(body) != len(labels):
        return [("symbol-file-lists-each-label-once", z3.BoolVal(False))]
    # each line: "<bank hex, width 2>:<offset hex, width 4> <name>"; digits may be symbolic
    pos = len("[labels]\n")
    conds = []
    used = []
    for ln in body:
        seg = chars[pos: pos + len(ln)]
        pos += len(ln) + 1
        name = ln.split(" ")[-1]
        cands = [i for i, (n, _) in enumerate(labels) if n == name and i not in used]
        if not cands:
            return [("symbol-file-lists-each-label-once", z3.BoolVal(False))]
        used.append(cands[0])
        want = labels[cands[0]][1]
        head = seg[: len(ln) - len(name) - 1]
        conds.append(_hex_field_eq(head, want))
    return [("symbol-file-bank-and-offset", z3.And(*conds) if conds else z3.BoolVal(True))]


def _hex_field_eq(head, want):
    """head = chars of 'bb:oooo' (space padded hex); value must equal want's bank and offset."""
    txt = "".join(chr(c) if isinstance(c, int) else "h" for c in head)
    if ":" not in txt:
        return z3.BoolVal(False)
    i = txt.index(":")
    return z3.And(_hexval(head[:i]) == ((want >> 16) & 0xFF), _hexval(head[i + 1:]) == (want & 0xFFFF))


def _hexval(chars):
    v = z3.BitVecVal(0, 64)
    for c in chars:
        if isinstance(c, int):
            if c == 32:
                continue
            v = v * 16 + int(chr(c), 16)
        else:
            t = z3.ZeroExt(56, c)
            v = v * 16 + z3.If(t <= 0x39, t - 0x30, z3.If(t >= 0x61, t - 0x57, t - 0x37))
    return v


def replay_extra(spec, values):
    """Process-level replay: the same option point through `python -m a816.cli`."""
    import os
    import subprocess
    import tempfile

    if spec["entry"] != "cli":
        return "n/a (not the CLI entry point)"
    prog = TEMPLATES[spec["tpl"]]
    _, poss = SK.holes(prog)
    fmt = ["ips", "sfc"][values.get("format", 0)]
    mapping = MAPPINGS[values.get("mapping", 0)]
    digits = "".join(chr(values.get(f"d{i}", 0x30)) for i in range(spec["digits"]))
    src = "".join(f"{n} := 0x{values.get(n, 0):x}\n" for n, _ in poss) + SK.render(prog) + "\n"
    repo = os.environ.get("A816_REPO", "/repo")
    with tempfile.TemporaryDirectory(prefix="a816verif-") as d:
        with open(os.path.join(d, "in.s"), "w") as f:
            f.write(src)
        cmd = ["/venv/bin/python", "-m", "a816.cli", "in.s", "-o", "out.bin", "-f", fmt, "-m", mapping, "-D", f"v=0x{digits}"]
        if values.get("copier"):
            cmd.append("--copier-header")
        r = subprocess.run(cmd, cwd=d, env={**os.environ, "PYTHONPATH": repo}, capture_output=True, text=True, timeout=60)
        data = open(os.path.join(d, "out.bin"), "rb").read().hex() if os.path.exists(os.path.join(d, "out.bin")) else None
        return {"cmd": " ".join(cmd[3:]), "exit_status": r.returncode, "output_hex": data, "stderr_tail": r.stderr[-300:]}
