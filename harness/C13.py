"""C13 -- including an IPS patch reproduces that patch's effect, shifted by delta.

Symbolic: every offset byte, every data byte, run-length values, delta in [-2^16, 2^16).
Enumerated: record sequences (plain with 1-3 data bytes, run-length with count 1-3), placement of
the directive in the program, malformed variants."""
import itertools

import z3

from harness.common import B, assemble, blist, virtual_files
from oracles.ips import EOF_MARK, Malformed, read_ips
from symx import bv

PROPERTY = "C13"

META = {
    "bounds": {
        "quick": "patches of 0-2 records over {plain 1/2/3 bytes, run-length count 1/3} + single run-length records of 32767 / 32768 / 65535 bytes; offsets, data and run-length values symbolic bytes; delta symbolic in [-65536, 65535]; directive before / between / after the program's own output; 9 malformed variants",
        "thorough": "patches of up to 3 records, plus a 300-byte plain record and a run-length record of 300",
    },
    "outside": ["records whose offset reads 'EOF' (format ambiguity, assumed away)", "patches with more than 3 records", "symbolic record sizes (sizes and run-length counts are enumerated, their data is symbolic)", "relative order between included records and the program's own blocks (not stated)"],
    "oracle": "oracles/ips.py reader on the same symbolic bytes; own output = the program without the directive (twin run)",
    "stubs": ["open(): virtual .ips file with symbolic content"],
    "assumptions": [],
}

OPTS = {"quick": {"deadline_s": 300}, "thorough": {"deadline_s": 900}}

KINDS = ["P1", "P2", "P3", "R1", "R3"]
PLACEMENTS = ["before", "between", "after", "only"]
MALFORMED = ["no-header", "short-header", "truncated-offset", "truncated-size", "truncated-data", "missing-eof", "empty-file", "truncated-rle", "garbage-after-header"]


def jobs(tier, seed):
    out = []
    maxr = 2 if tier == "quick" else 3
    for n in range(0, maxr + 1):
        for seq in itertools.product(KINDS, repeat=n):
            placements = PLACEMENTS if n <= 1 or tier == "thorough" else ["between"]
            for pl in placements:
                out.append({"id": f"ok/{'-'.join(seq) or 'empty'}/{pl}", "fam": "ok", "seq": list(seq), "place": pl})
    if tier == "thorough":
        out.append({"id": "ok/P300/between", "fam": "ok", "seq": ["P300"], "place": "between"})
        out.append({"id": "ok/R300-P1/between", "fam": "ok", "seq": ["R300", "P1"], "place": "between"})
    # run-length counts around the 15/16-bit boundaries
    for k in ("R32767", "R32768", "R65535"):
        out.append({"id": f"ok/{k}/between", "fam": "ok", "seq": [k], "place": "between"})
    out.append({"id": "ok/literal-delta", "fam": "ok", "seq": ["P2", "R3"], "place": "between", "literal_delta": True})
    for seq in (["P1"], ["P2", "R3"], ["R1", "P3"]):
        out.append({"id": f"ok/twice/{'-'.join(seq)}", "fam": "ok", "seq": seq, "place": "between", "twice": True})
    for seq in (["P1"], ["R3", "P2"]):
        for w in ("loop", "macro", "scope"):
            out.append({"id": f"ok/in-{w}/{'-'.join(seq)}", "fam": "ok", "seq": seq, "place": "between", "wrapper": w})
        out.append({"id": f"ok/delta-reassigned/{'-'.join(seq)}", "fam": "ok", "seq": seq, "place": "between", "reassigned": True})
        out.append({"id": f"ok/delta-shadowed/{'-'.join(seq)}", "fam": "ok", "seq": seq, "place": "between", "shadowed": True})
    for m in MALFORMED:
        out.append({"id": f"malformed/{m}", "fam": "malformed", "variant": m})
    return out


def build_patch(spec, cx):
    """Returns (file content as list of ints / 8-bit terms)."""
    data = list(b"PATCH")
    for i, kind in enumerate(spec["seq"]):
        off = [cx.char(f"o{i}_{k}") for k in range(3)]
        data += off
        n = int(kind[1:])
        if kind[0] == "P":
            data += [n >> 8, n & 0xFF]
            data += [cx.char(f"d{i}_{k}") for k in range(n)]
        else:
            data += [0, 0, n >> 8, n & 0xFF, cx.char(f"v{i}")]
    data += list(b"EOF")
    return data


def program(place, directive):
    own1 = ".db 1, 2\nl1:\n.dl l1\n"
    own2 = "*=0x18000\n.db 3\nl2:\n.dl l2, l1\n"
    if place == "only":
        return directive
    if place == "before":
        return directive + "*=0x8000\n" + own1 + own2
    if place == "between":
        return "*=0x8000\n" + own1 + directive + own2
    return "*=0x8000\n" + own1 + own2 + directive


def _outcome(r):
    if r[0] == "ok":
        return ("ok", [(a, b) for a, b in r[1]])
    return ("rejected", "error-string" if r[0] == "error" else type(r[1]).__name__)


def run(spec, cx):
    if spec["fam"] == "ok":
        content = build_patch(spec, cx)
        for i in range(len(spec["seq"])):
            o = [z3.ZeroExt(56, cx.t(f"o{i}_{k}")) for k in range(3)]
            cx.assume(((o[0] << 16) | (o[1] << 8) | o[2]) != EOF_MARK)
        if spec.get("literal_delta"):
            syms, directive = {}, ".include_ips 'p.ips', -0x1234\n"
        elif spec.get("wrapper") == "loop":
            # two iterations, the delta depends on the loop variable
            syms = {"d": cx.int("d", -65536, 65535)}
            directive = ".for i := 0, 2 {\n.include_ips 'p.ips', d + i * 0x100\n}\n"
        elif spec.get("wrapper") == "macro":
            syms = {"d": cx.int("d", -65536, 65535), "e": cx.int("e", -65536, 65535)}
            directive = ".macro inc(delta) {\n.include_ips 'p.ips', delta\n}\ninc(d)\ninc(e)\n"
        elif spec.get("wrapper") == "scope":
            syms = {"d": cx.int("d", -65536, 65535)}
            directive = ".scope ns {\noff = d\n{\n.include_ips 'p.ips', d + 2\n}\n}\n"
        elif spec.get("reassigned"):
            # the delta is the value of the variable where the directive stands
            syms = {"d": cx.int("d", -65536, 65535), "e": cx.int("e", -65536, 65535)}
            directive = "off := d\n.include_ips 'p.ips', off\noff := e\n"
        elif spec.get("shadowed"):
            syms = {"d": cx.int("d", -65536, 65535), "e": cx.int("e", -65536, 65535)}
            directive = "off := d\n{\n.include_ips 'p.ips', off + 1\noff = e\n}\n"
        elif spec.get("twice"):
            # the same file included twice with two different deltas
            syms = {"d": cx.int("d", -65536, 65535), "e": cx.int("e", -65536, 65535)}
            directive = ".include_ips 'p.ips', d\n.db 0x5A\n.include_ips 'p.ips', e\n"
        else:
            syms, directive = {"d": cx.int("d", -65536, 65535)}, ".include_ips 'p.ips', d\n"
        with virtual_files(cx, {"p.ips": cx.bytes_(content)}):
            r = _outcome(assemble(program(spec["place"], directive), syms))
        twin = _outcome(assemble(program(spec["place"], ".db 0x5A\n" if spec.get("twice") else ""), syms))
        return (r, twin)
    v = spec["variant"]
    good = []
    if v not in ("short-header", "empty-file", "garbage-after-header"):
        good = list(b"PATCH") + [cx.char("o0"), cx.char("o1"), cx.char("o2"), 0, 2, cx.char("x0"), cx.char("x1")] + list(b"EOF")
    if v == "no-header":
        content = [cx.char(f"h{k}") for k in range(5)] + good[5:]
        h = [z3.ZeroExt(56, cx.t(f"h{k}")) for k in range(5)]
        cx.assume(z3.Not(z3.And(*[h[k] == b"PATCH"[k] for k in range(5)])))
    elif v == "short-header":
        content = list(b"PAT")
    elif v == "truncated-offset":
        content = good[:7]
    elif v == "truncated-size":
        content = good[:9]
    elif v == "truncated-data":
        content = good[:11]
    elif v == "missing-eof":
        content = good[:12]
    elif v == "empty-file":
        content = []
    elif v == "truncated-rle":
        content = good[:8] + [0, 0, 0]
    else:
        content = list(b"PATCH") + [cx.char("g0"), cx.char("g1")]
    if "o0" in cx.decl:
        o = [z3.ZeroExt(56, cx.t(f"o{k}")) for k in range(3)]
        cx.assume(((o[0] << 16) | (o[1] << 8) | o[2]) != EOF_MARK)
    with virtual_files(cx, {"p.ips": cx.bytes_(content)}):
        r = _outcome(assemble(program("between", ".include_ips 'p.ips', 0\n"), {}))
    return (r, None)


def _expected_records(spec, cx):
    if spec.get("twice"):
        return _records_with(spec, cx, cx.t("d")) + _records_with(spec, cx, cx.t("e"))
    if spec.get("wrapper") == "loop":
        return _records_with(spec, cx, cx.t("d")) + _records_with(spec, cx, cx.t("d") + 0x100)
    if spec.get("wrapper") == "macro":
        return _records_with(spec, cx, cx.t("d")) + _records_with(spec, cx, cx.t("e"))
    if spec.get("wrapper") == "scope":
        return _records_with(spec, cx, cx.t("d") + 2)
    if spec.get("shadowed"):
        return _records_with(spec, cx, cx.t("d") + 1)
    return _records_with(spec, cx, B(-0x1234) if spec.get("literal_delta") else cx.t("d"))


def _records_with(spec, cx, delta):
    recs = []
    for i, kind in enumerate(spec["seq"]):
        o = [z3.ZeroExt(56, cx.t(f"o{i}_{k}")) for k in range(3)]
        off = (o[0] << 16) | (o[1] << 8) | o[2]
        n = int(kind[1:])
        if kind[0] == "P":
            data = [z3.ZeroExt(56, cx.t(f"d{i}_{k}")) for k in range(n)]
        else:
            data = [z3.ZeroExt(56, cx.t(f"v{i}"))] * n
        recs.append((off + delta, data))
    return recs


def _same(block, exp):
    addr, data = block
    eaddr, edata = exp
    bs = blist(data)
    if len(bs) != len(edata):
        return None
    return z3.And(bv(addr) == eaddr, *[a == b for a, b in zip(bs, edata)])


def check(spec, cx, out):
    r, twin = out
    if spec["fam"] == "malformed":
        return [("malformed-patch-rejected", z3.BoolVal(r[0] == "rejected"))]
    if twin[0] != "ok":
        return [("twin-program-assembles", z3.BoolVal(False))]
    if r[0] != "ok":
        return [("well-formed-patch-accepted", z3.BoolVal(False))]
    own = [(bv(a), blist(b)) for a, b in twin[1]]
    recs = _expected_records(spec, cx)
    got = r[1]
    if len(got) != len(own) + len(recs):
        return [("records-and-own-output-exactly", z3.BoolVal(False))]
    # any interleaving that keeps the order of the records and the order of the own blocks
    alts = []
    n, m = len(own), len(recs)
    for pos in itertools.combinations(range(n + m), m):
        conds, oi, ri = [], 0, 0
        ok = True
        for k in range(n + m):
            if k in pos:
                c = _same(got[k], recs[ri])
                ri += 1
            else:
                c = _same(got[k], own[oi])
                oi += 1
            if c is None:
                ok = False
                break
            conds.append(c)
        if ok:
            alts.append(z3.And(*conds) if conds else z3.BoolVal(True))
    return [("records-in-order-shifted-by-delta-own-output-unchanged", z3.Or(*alts) if alts else z3.BoolVal(False))]
