"""C14 -- a failed assembly is never reported as success.

Symbolic: the value-dependent error classes (operand magnitude that makes the width
unsupported, branch target, *= into an unmapped bank) are decided for all values.
Enumerated: structural error classes x statement position x entry point (string API,
assemble_with_emitter, assemble, assemble_as_patch, cli_main with format ips / sfc)."""
import logging

import z3

from harness.common import RecWriter, new_program, virtual_files
from oracles import layout as L

PROPERTY = "C14"

META = {
    "bounds": {
        "quick": "30 structural error statements x 3 insertion positions in a 3-statement base program and 4 positions (one per block) in a program of three `*=` blocks and a relocated part x 6 entry points; the same statements inside 9 wrappers expanded at code-generation time (taken .if / else, macro body, code argument, loop body, nested blocks, named scope) x 2 entry points; 6 value-dependent statement kinds with a symbolic 24-bit value (26 bits for the `*=` operand) x 6 entry points; valid programs x 6 entry points",
        "thorough": "same with 4 insertion positions and two base programs",
    },
    "outside": ["argparse itself and the OS process boundary (exercised concretely by --replay through `python -m a816.cli`)", "error classes not listed in the property"],
    "oracle": "definite error / definite success predicates written from the property and from the C01 / C04 / C05 oracles",
    "stubs": ["argparse.ArgumentParser.parse_args returns the harness's namespace", "logging.basicConfig is a no-op; a recording handler on the x816 logger observes 'Success !'", "open(): virtual input / output files", "sys.exit observed as SystemExit"],
    "assumptions": [],
}

OPTS = {"quick": {"deadline_s": 300}, "thorough": {"deadline_s": 900}}

BASES = [["*=0x8000", "start:", "lda.w #0x1234", ".dw start"], ["*=0x8000", ".macro m(a) {\n.db a\n}", "m(1)", "{\nnop\n}"],
         # several `*=` blocks (a fault in any block must be reported, whatever follows it)
         ["*=0x8000", "start:", ".dw start", "*=0x018000", "second:", "lda.w #0x1234", "@=0x7e2000", "ram:", ".dl ram", "*=0x028000", ".dw second", ".dl start"]]

STRUCTURAL = {
    "lex-bad-suffix": "lda.q 0x10",
    "lex-invalid-char": "lda.w #0x10 $",
    "lex-unterminated-string": ".ascii 'abc",
    "lex-unterminated-comment": "/* never closed",
    "lex-bad-index": "lda 0x10,q",
    "lex-unknown-keyword": ".nosuchdirective 1",
    "syntax-missing-operand": "lda #",
    "syntax-dangling-comma": ".db 1,",
    "syntax-unclosed-block": "{\nnop",
    "syntax-missing-value": "x =",
    "syntax-stray-brace": "}",
    "undef-symbol-data": ".dw nosuchsymbol",
    "undef-symbol-operand": "lda.w nosuchsymbol",
    "undef-symbol-inferred": "lda nosuchsymbol",
    "undef-macro": "nosuchmacro(1)",
    "missing-macro-arg": ".macro two(a, b) {\n.db a, b\n}\ntwo(1)",
    # ... with an unrelated symbol / label of the missing parameter's name in the enclosing scope
    "missing-macro-arg-outer-symbol": "b = 5\n.macro two(a, b) {\n.db a, b\n}\ntwo(1)",
    "missing-macro-arg-outer-label": "start_b:\n.macro twol(a, start) {\n.dw a, start\n}\ntwol(1)",
    # the offending argument is bound to a parameter that the body never reads / reads only in a branch not taken
    "undef-symbol-unused-macro-arg": ".macro unusedp(x) {\nnop\n}\nunusedp(nosuchsymbol)",
    "undef-symbol-unused-macro-arg-expr": ".macro unusede(x, y) {\n.db y\n}\nunusede(nosuchsymbol + 1, 2)",
    # a source file holding a byte that is not valid UTF-8 (file entry points and .include only)
    "non-utf8-byte": ".db 0x1\udcff2",
    "non-utf8-byte-in-comment-free-text": "lda #0x1\udcfe",
    "bad-mode-index": "lda (0x10),x",
    "bad-mode-immediate": "stx #1",
    "bad-mode-long": "ldx.l 0x123456",
    "missing-include": ".include 'nofile.s'",
    "missing-incbin": ".incbin 'nofile.bin'",
    "missing-table": ".table 'nofile.tbl'",
    "missing-ips": ".include_ips 'nofile.ips', 0",
    "text-without-table": ".text 'abc'",
}

WRAPPERS = {
    "if-taken": ".if 1 {\n%s\n}",
    "if-else-taken": ".if 0 {\nnop\n} else {\n%s\n}",
    "if-undefined-cond-else": ".if nosuchcondition {\nnop\n} else {\n%s\n}",
    "macro-body": ".macro wrapm() {\n%s\n}\nwrapm()",
    "macro-code-arg": ".macro wrapc(c) {\n{{c}}\n}\nwrapc({\n%s\n})",
    "for-body": ".for i := 0, 2 {\n%s\n}",
    "block": "{\n{\n%s\n}\n}",
    "named-scope": ".scope wns {\n%s\n}",
    "included-file": ".include 'inc.s'",
    "included-file-in-scope": "{\n.include 'inc.s'\n}",
    "if-in-macro-in-for": ".macro wrapi(x) {\n.if x {\n%s\n}\n}\n.for i := 1, 2 {\nwrapi(i)\n}",
}

VALUE = ["jsr-width", "ldx-width", "rep-width", "branch-range", "star-unmapped", "valid"]
ENTRIES = ["string", "with_emitter", "assemble", "as_patch", "cli-ips", "cli-sfc"]


def jobs(tier, seed):
    out = []
    bases = [0, 2] if tier == "quick" else [0, 1, 2]
    for bi in bases:
        npos = len(BASES[bi]) + 1
        positions = [1, 2, npos - 1] if tier == "quick" else list(range(1, npos))
        if bi == 2:
            positions = [2, 5, 8, npos - 1] if tier == "quick" else list(range(1, npos))
        for ek in STRUCTURAL:
            for pos in positions:
                for en in ENTRIES:
                    if ek.startswith("non-utf8") and en in ("string", "with_emitter"):
                        continue     # the in-memory API receives text, not bytes
                    out.append({"id": f"b{bi}/{ek}/at{pos}/{en}", "fam": "structural", "base": bi, "err": ek, "pos": pos, "entry": en})
    # the same error statements inside constructs that are expanded at code-generation time
    for ek, stmt in STRUCTURAL.items():
        if "{" in stmt or "}" in stmt or ek.startswith("lex-unterminated"):
            continue
        if ek.startswith("non-utf8"):
            for en in ("assemble", "cli-ips"):
                out.append({"id": f"wrapped/included-file/{ek}/{en}", "fam": "structural", "base": 0, "err": ek, "pos": 2, "entry": en, "wrapper": "included-file"})
            continue
        for wn in WRAPPERS:
            for en in ("string", "cli-ips"):
                out.append({"id": f"wrapped/{wn}/{ek}/{en}", "fam": "structural", "base": 0, "err": ek, "pos": 2, "entry": en, "wrapper": wn})
    for vk in VALUE:
        for en in ENTRIES:
            out.append({"id": f"value/{vk}/{en}", "fam": "value", "vk": vk, "entry": en})
    return out


class Rec(logging.Handler):
    def __init__(self):
        super().__init__(level=logging.DEBUG)
        self.msgs = []

    def emit(self, record):
        self.msgs.append(record.msg)

    def handle(self, record):
        self.emit(record)
        return True


def drive(entry, src, syms, cx):
    """Run one entry point; returns (kind, value, success_announced)."""
    import argparse
    import types
    from pathlib import Path

    rec = Rec()
    lg = logging.getLogger("x816")
    old_disable = logging.root.manager.disable
    logging.disable(logging.NOTSET)
    old_level, old_prop = lg.level, lg.propagate
    lg.setLevel(logging.DEBUG)
    lg.propagate = False
    lg.addHandler(rec)
    lg2 = logging.getLogger("a816")
    old2 = (lg2.level, lg2.propagate)
    lg2.propagate = False
    lg2.addHandler(rec)
    try:
        files = {"in.s": src}
        files.update(getattr(cx, "files", {}))
        # lone surrogates U+DC80..DCFF in the harness text stand for raw bytes 0x80..0xFF (not valid UTF-8) in the files
        files = {k: (v.encode("utf-8", "surrogateescape") if isinstance(v, str) and any(0xDC80 <= ord(c) <= 0xDCFF for c in v) else v) for k, v in files.items()}
        with virtual_files(cx, files, outputs=["out.bin"]):
            if entry == "string":
                p = new_program(syms=syms)
                try:
                    r = p.assemble_string_with_emitter(src, "in.s", RecWriter())
                    out = ("return", None if r is None else "error-string")
                except Exception as e:  # noqa: BLE001
                    out = ("raise", type(e).__name__)
            elif entry in ("with_emitter", "assemble", "as_patch"):
                p = new_program(syms=syms)
                try:
                    if entry == "with_emitter":
                        r = p.assemble_with_emitter("in.s", RecWriter())
                    elif entry == "assemble":
                        r = p.assemble("in.s", Path("out.bin"))
                    else:
                        r = p.assemble_as_patch("in.s", Path("out.bin"))
                    out = ("return", r)
                except Exception as e:  # noqa: BLE001
                    out = ("raise", type(e).__name__)
            else:
                import a816.cli as cli

                defines = [f"{k}=0x{v:x}" for k, v in syms.items()] if not cx.symbolic else None
                ns = types.SimpleNamespace(
                    verbose=False, output_file=Path("out.bin"), input_file=Path("in.s"), format="ips" if entry == "cli-ips" else "sfc",
                    mapping="low", copier_header=False, dump_symbols=False, defines=None,
                )
                orig_parse = argparse.ArgumentParser.parse_args
                orig_basic = logging.basicConfig
                orig_program = cli.Program
                argparse.ArgumentParser.parse_args = lambda self, *a, **k: ns
                logging.basicConfig = lambda *a, **k: None

                def make_program(*a, **k):
                    # -D cannot carry the symbolic value: the symbols are put into the root scope
                    # of the Program the CLI creates (same effect as a constant definition)
                    p = orig_program(*a, **k)
                    for name, v in syms.items():
                        p.resolver.current_scope.add_symbol(name, v)
                    return p

                cli.Program = make_program
                try:
                    try:
                        cli.cli_main()
                        out = ("return", None)
                    except SystemExit as e:
                        out = ("exit", e.code)
                    except Exception as e:  # noqa: BLE001
                        out = ("raise", type(e).__name__)
                finally:
                    argparse.ArgumentParser.parse_args = orig_parse
                    logging.basicConfig = orig_basic
                    cli.Program = orig_program
                del defines
    finally:
        lg.removeHandler(rec)
        lg2.removeHandler(rec)
        lg.setLevel(old_level)
        lg.propagate = old_prop
        lg2.level, lg2.propagate = old2
        logging.disable(old_disable)
    announced = any(isinstance(m, str) and m == "Success !" for m in rec.msgs)
    return out + (announced,)


def build(spec, cx):
    """(source, symbols, error predicate: True | False | z3 Bool, defined predicate)."""
    if spec["fam"] == "structural":
        lines = list(BASES[spec["base"]])
        stmt = STRUCTURAL[spec["err"]]
        if spec.get("wrapper", "").startswith("included-file"):
            cx.files = {"inc.s": "nop\n" + stmt + "\nnop\n"}
            stmt = WRAPPERS[spec["wrapper"]]
        elif spec.get("wrapper"):
            stmt = WRAPPERS[spec["wrapper"]] % stmt
        lines.insert(spec["pos"], stmt)
        return "\n".join(lines) + "\n", {}
    vk = spec["vk"]
    v = cx.int("v", 0, 0x3FFFFFF if vk == "star-unmapped" else 0xFFFFFF)     # positions beyond 24 bits are unmapped too
    syms = {"v": v}
    body = {
        "jsr-width": "jsr v", "ldx-width": "ldx v", "rep-width": "rep #v", "branch-range": "bra v",
        "star-unmapped": "*= v\nnop", "valid": "lda v\n.dl v",
    }[vk]
    return f"*=0x8000\nstart:\n{body}\n.dw start\n", syms


def predicate(spec, cx):
    """(is_error, defined): z3 Bools."""
    T, F = z3.BoolVal(True), z3.BoolVal(False)
    if spec["fam"] == "structural":
        return T, T
    v = cx.t("v")
    vk = spec["vk"]
    if vk == "jsr-width":
        return v < 0x100, T
    if vk == "ldx-width":
        return v >= 0x10000, T
    if vk == "rep-width":
        return v >= 0x100, T
    if vk == "valid":
        return F, T
    g = L.GEOMS["low"]
    if vk == "star-unmapped":
        return z3.Not(z3.Or(L.is_rom(g, v), L.is_ram(g, v))), z3.Or(z3.Not(z3.Or(L.is_rom(g, v), L.is_ram(g, v))), z3.And(L.in_window(g, v), L.offset(g, v) + 8 < L.run_size(g, v)))
    # branch at 0x8000 (run address), target v: same bank 0, in window
    d = v - 0x8002
    same = z3.And((v >> 16) == 0, (v & 0xFFFF) >= 0x8000)
    return z3.Not(z3.And(d >= -128, d <= 127)), same


def run(spec, cx):
    src, syms = build(spec, cx)
    return drive(spec["entry"], src, syms, cx)


def check(spec, cx, out):
    kind, value, announced = out
    is_error, defined = predicate(spec, cx)
    entry = spec["entry"]
    if kind == "raise":
        reported, success = True, False
    elif entry == "string":
        reported, success = value is not None, value is None
    elif kind == "exit":
        ok = value in (0, None)
        reported, success = (not ok) and not announced, ok
    else:
        ok = value == 0 if entry != "cli-ips" and entry != "cli-sfc" else value in (0, None)
        reported, success = (not ok) and not announced, ok
    res = [("failure-reaches-the-caller", z3.Implies(z3.And(defined, is_error), z3.BoolVal(bool(reported))))]
    res.append(("valid-program-reports-success", z3.Implies(z3.And(defined, z3.Not(is_error)), z3.BoolVal(bool(success)))))
    return res


def replay_extra(spec, values):
    """Process-level replay of CLI jobs: `python -m a816.cli` as a real process."""
    import os
    import subprocess
    import tempfile

    if not spec["entry"].startswith("cli"):
        return "n/a (not a CLI entry point)"

    class _C:
        symbolic = False

        def int(self, name, lo, hi):
            return int(values.get(name, lo))

    src, syms = build(spec, _C())
    repo = os.environ.get("A816_REPO", "/repo")
    with tempfile.TemporaryDirectory(prefix="a816verif-") as d:
        with open(os.path.join(d, "in.s"), "w") as f:
            f.write("".join(f"{k} := 0x{v:x}\n" for k, v in syms.items()) + src)
        cmd = ["/venv/bin/python", "-m", "a816.cli", "in.s", "-o", "out.bin", "-f", "ips" if spec["entry"] == "cli-ips" else "sfc"]
        r = subprocess.run(cmd, cwd=d, env={**os.environ, "PYTHONPATH": repo}, capture_output=True, text=True, timeout=60)
        return {"exit_status": r.returncode, "announced_success": "Success !" in (r.stderr + r.stdout), "stderr_tail": r.stderr[-300:]}
