"""C15 -- every input terminates.

Termination is decided as a safety property: the instrumented code counts loop iterations and
function entries (ticks); the assertion is ticks <= B(input size).  A path that exhausts the
budget is confirmed by running its model on the un-instrumented code under a watchdog.

Families: (a) ALL strings of length <= n over the 256 8-bit characters; (b) every prefix of
template programs / the repository's samples followed by symbolic characters; (c) symbolic token
sequences fed to the real Parser; (d) loop / recursive-macro expansion with symbolic counts."""
import os

import z3

from harness.common import RecWriter, new_program
from symx import FuelExhausted

PROPERTY = "C15"

META = {
    "bounds": {
        "quick": "(a) every 8-bit string of length <= 3 through parse_as_ast and of length <= 2 through assemble_string_with_emitter; (b) every prefix of 37 template programs + the 2 sample sources followed by 1 symbolic character; (c) token sequences of length <= 3 over all token types x 26 token texts; (d) .for bounds and recursive-macro depth in [-2, 8]; (e) .include_ips files; (f) 11 templates + a loop with a symbolic count applying a macro and declaring a named scope, assembled with the symbol dump on; (g) the command line with every -D value of <= 2 arbitrary characters",
        "thorough": "(a) length <= 4 (parse) / <= 3 (assemble); (b) 2 symbolic characters; (c) length <= 4; (d) same",
    },
    "outside": ["arbitrary texts longer than the bound", "code points above 255", "dead scanner states unreachable from the public API (lex_macro_args_def)"],
    "oracle": "tick budget B = 3000 + 400 * size (calibrated: ~70 ticks for 1 character, ~230 for 10); budget overruns are confirmed on the un-instrumented code under a 5 s watchdog",
    "stubs": ["print / logging output discarded"],
    "assumptions": ["a run that exceeds the watchdog on a <= 4 character input does not terminate"],
}

OPTS = {
    "quick": {"deadline_s": 900, "concrete_timeout": 5.0, "xcheck_every": 7},
    "thorough": {"deadline_s": 3000, "concrete_timeout": 5.0, "xcheck_every": 23},
}

TEMPLATES = [
    "lda.w #0x1234\n",
    "lda (0x10,x)\nsta [0x20],y\n",
    "label: nop\n bra label\n",
    "*=0x8000\n@=0x7e0000\n",
    "a = 4\nb := a + 1\n",
    ".db 1, 2, a\n.dw 0x1234\n.dl label\n",
    ".ascii 'text'\n.text 'abc'\n",
    ".macro m(a, b) {\n lda.b #a\n}\nm(1, 2)\n",
    ".scope ns {\n l:\n}\n.dw ns.l\n",
    ".if a {\n nop\n} else {\n rts\n}\n",
    ".for i := 0, 3 {\n .db i\n}\n",
    "{\n x: nop\n}\n",
    "; comment\n/* multi\nline */\nnop ; tail\n",
    ".include 'x.s'\n",
    ".incbin 'f.bin'\n.include_ips 'p.ips', 0x10\n",
    ".table 't.tbl'\n",
    ".map identifier=1 bank_range=0x00, 0x6f addr_range=0x8000, 0xffff mask=0x8000\n",
    ".macro w(c) {\n {{c}}\n}\nw({ nop })\n",
    "lda.l 0x123456,x\nLDA.W 0x12,Y\n",
    "jmp (0x1234)\njmp [0x10]\n",
    ".struct s {\n}\n",
    "lda #~1\nlda #-1 + (2 << 3) & 0xff | 1\n",
    "pea.w return_addr-1\n",
    ".dw a == b, a != b\n",
    "x.y = 1\n",
    "lda 'a'\n",
    "nop.b\n",
    "lda #\n",
    ".pointer label, 0b101\n",
    "{{ a }}\n",
    "{\n{\n.text 'ab'\n}\n}\n",
    ".table 't.tbl'\n{\n.scope ns {\n{\n.text 'a'\n}\n}\n}\n",
    ".macro m(a) {\n{\n.text 'a'\n.db a\n}\n}\n.for i := 0, 2 {\n{\nm(i)\n}\n}\n",
    ".scope a {\n.scope b {\n{\nl:\n.dl l\n}\n}\n}\n.dw a.b\n",
    ".macro r(n) {\n.if n {\n{\nr(n - 1)\n}\n}\n}\nr(3)\n",
    ".table 't.tbl'\n.text 'Hello a![0x05] aa[0x41]a[end]'\nl:\n.dl l\n",
    ".table 't.tbl'\n{\n.text '[0x01][0x02]aaaaaaaa[0x03]'\n}\n",
]


DUMP_TEMPLATES = [7, 8, 9, 10, 11, 17, 30, 31, 32, 33, 34]


def samples():
    repo = os.environ.get("A816_REPO", "/repo")
    out = []
    for f in ("tests/samples/push_pull.s", "tests/samples/sample.s"):
        p = os.path.join(repo, f)
        if os.path.exists(p):
            out.append(open(p, encoding="utf-8").read())
    return out


POOL = ["scope", "macro", "if", "for", "db", "dw", "include_ips", "incbin", "table", "text", "map", "struct", "else", "include",
        "a", "-", "~", "+", "x", "b", "'s'", "1", "identifier", "mask", "bank_range", "*"]

PARTS = 16


def jobs(tier, seed):
    out = []
    nparse = 3 if tier == "quick" else 4
    nasm = 2 if tier == "quick" else 3
    for n in range(0, nparse + 1):
        parts = PARTS if n >= 2 else 1
        for k in range(parts):
            out.append({"id": f"str/parse/{n}/{k:02d}", "fam": "str", "entry": "parse", "n": n, "part": k, "parts": parts})
    for n in range(0, nasm + 1):
        parts = PARTS if n >= 2 else 1
        for k in range(parts):
            out.append({"id": f"str/asm/{n}/{k:02d}", "fam": "str", "entry": "asm", "n": n, "part": k, "parts": parts})
    extra = 1 if tier == "quick" else 2
    texts = TEMPLATES + samples()
    for ti, t in enumerate(texts):
        step = 1 if len(t) <= 80 else 3
        cuts = list(range(0, len(t) + 1, step))
        out.append({"id": f"prefix/{ti:02d}", "fam": "prefix", "text": t, "cuts": cuts, "extra": extra})
    for k in range(1, (3 if tier == "quick" else 4) + 1):
        out.append({"id": f"tokens/{k}", "fam": "tokens", "k": k})
    # files brought in by directives: every file of PATCH + <= n arbitrary bytes (truncated records, no EOF trailer,
    # run-length records), every table file of <= n characters
    for n in range(0, 7 + 1):
        out.append({"id": f"file/ips-reader/{n}", "fam": "ipsfile", "n": n, "unit": True})
    # one complete record (plain / run-length with a count <= 3) followed by <= n arbitrary bytes
    for kind in ("plain", "rle"):
        for n in range(0, (5 if tier == "quick" else 7) + 1):
            out.append({"id": f"file/ips-reader/{kind}+{n}", "fam": "ipsfile", "n": n, "unit": True, "first": kind})
    for n in range(0, (3 if tier == "quick" else 4) + 1):
        out.append({"id": f"file/ips/{n}", "fam": "ipsfile", "n": n})
    for n in range(0, (3 if tier == "quick" else 4) + 1):
        out.append({"id": f"file/ips-noheader/{n}", "fam": "ipsfile", "n": n, "noheader": True})
    # the symbol dump (Program(dump_symbols=True) / --dump-symbols) walks every scope after the assembly: whole templates
    # with loops, macros, blocks and named scopes nested in one another
    for ti in DUMP_TEMPLATES:
        out.append({"id": f"dump/{ti:02d}", "fam": "dump", "text": TEMPLATES[ti]})
    # the command line: every -D value of <= 2 arbitrary 8-bit characters (and a digit followed by one) terminates
    for n in (0, 1, 2):
        parts = PARTS if n >= 2 else 1
        for k in range(parts):
            out.append({"id": f"cli-define/{n}/{k:02d}", "fam": "define", "n": n, "part": k, "parts": parts})
    out.append({"id": "cli-define/digit+1/00", "fam": "define", "n": 1, "part": 0, "parts": 1, "lead": "7"})
    out.append({"id": "expand/for", "fam": "for"})
    out.append({"id": "expand/nested-for", "fam": "for2"})
    out.append({"id": "expand/recursive-macro", "fam": "rec"})
    return out


def budget(size):
    return 3000 + 400 * size


def _first_domain(part, parts):
    if parts == 1:
        return None
    size = 256 // parts
    return list(range(part * size, (part + 1) * size))


def _drive(entry, src):
    if entry == "parse":
        from a816.parse.mzparser import MZParser

        r = MZParser.parse_as_ast(src, "m.s")
        return "parsed" if r.error is None else "error-reported"
    p = new_program()
    err = p.assemble_string_with_emitter(src, "m.s", RecWriter())
    return "assembled" if err is None else "error-reported"


def run(spec, cx):
    import symx

    fam = spec["fam"]
    eng = symx.current() if cx.symbolic else None

    def guarded(size, fn):
        if eng is not None:
            eng.max_ticks = eng.ticks + budget(size)
        try:
            try:
                return ("done", fn())
            except FuelExhausted:
                return ("budget-exhausted",)
            except RecursionError:
                return ("done", "RecursionError")
            except Exception as e:  # noqa: BLE001
                return ("done", "exc:" + type(e).__name__)
        finally:
            if eng is not None:
                eng.max_ticks = None

    if fam == "str":
        n = spec["n"]
        chars = []
        for i in range(n):
            dom = _first_domain(spec["part"], spec["parts"]) if i == 0 else None
            chars.append(cx.char(f"c{i}", dom))
        src = cx.string(chars)
        return guarded(n, lambda: _drive(spec["entry"], src))
    if fam == "prefix":
        text, cuts = spec["text"], spec["cuts"]
        ci = cx.choice("cut", list(range(len(cuts))))
        ci = ci.pick() if hasattr(ci, "pick") else ci
        cut = cuts[ci]
        chars = [ord(c) for c in text[:cut]] + [cx.char(f"c{i}") for i in range(spec["extra"])]
        src = cx.string(chars)
        with_files = {"x.s": "nop\n", "f.bin": b"\x01\x02", "p.ips": b"PATCH\x00\x00\x10\x00\x01\xaaEOF", "t.tbl": "41=a\n"}
        from harness.common import virtual_files

        with virtual_files(cx, with_files):
            return guarded(len(chars), lambda: _drive("asm", src))
    if fam == "tokens":
        from a816.parse.parser import Parser
        from a816.parse.parser_states import parse_initial
        from a816.parse.tokens import Token, TokenType

        types = [t for t in TokenType if t != TokenType.EOF]
        toks = []
        for i in range(spec["k"]):
            if cx.symbolic:
                tt = cx.choice(f"t{i}", list(range(len(types))))
                ty = symx.SEnum(types, tt.t)
            else:
                ty = types[cx.choice(f"t{i}", list(range(len(types))))]
            val = cx.choice(f"v{i}", POOL)
            toks.append(Token(ty, val, None))
        toks.append(Token(TokenType.EOF, "", None))

        def parse():
            Parser(toks, parse_initial).parse()
            return "parsed"

        return guarded(spec["k"] * 4, parse)
    if fam == "define":
        import argparse
        import logging
        import types
        from pathlib import Path

        from harness.common import virtual_files

        chars = [ord(c) for c in spec.get("lead", "")]
        for i in range(spec["n"]):
            dom = _first_domain(spec["part"], spec["parts"]) if i == 0 else None
            chars.append(cx.char(f"c{i}", dom))
        define = cx.string([ord(c) for c in "v="] + chars)

        def cli_run():
            import a816.cli as cli

            ns = types.SimpleNamespace(verbose=False, output_file=Path("out.bin"), input_file=Path("in.s"), format="ips", mapping="low",
                                       copier_header=False, dump_symbols=False, defines=[define])
            orig_parse, orig_basic = argparse.ArgumentParser.parse_args, logging.basicConfig
            argparse.ArgumentParser.parse_args = lambda self, *a, **k: ns
            logging.basicConfig = lambda *a, **k: None
            try:
                try:
                    cli.cli_main()
                    return "returned"
                except SystemExit:
                    return "exit"
            finally:
                argparse.ArgumentParser.parse_args, logging.basicConfig = orig_parse, orig_basic

        with virtual_files(cx, {"in.s": "*=0x8000\nnop\n"}, outputs=["out.bin"]):
            return guarded(len(chars) + 20, cli_run)
    if fam == "dump":
        from harness.common import virtual_files

        text = spec["text"]
        k = cx.int("k", 0, 3)      # symbolic count for a trailing loop that applies a macro inside a block
        src = text + ".macro dumpm(q) {\n{\n.db q\n}\n}\n.for dj := 0, k {\ndumpm(dj)\n.scope dns {\ndl:\n}\n}\n"
        with virtual_files(cx, {"x.s": "nop\n", "t.tbl": "41=a\n"}):
            p = new_program(syms={"k": k}, dump_symbols=True)
            return guarded(len(src), lambda: "assembled" if p.assemble_string_with_emitter(src, "m.s", RecWriter()) is None else "error-reported")
    if fam == "ipsfile":
        from harness.common import virtual_files

        n = spec["n"]
        head = [] if spec.get("noheader") else list(b"PATCH")
        if spec.get("first") == "plain":
            head += [cx.char("a0"), cx.char("a1"), cx.char("a2"), 0, 1, cx.char("d0")]
        elif spec.get("first") == "rle":
            head += [cx.char("a0"), cx.char("a1"), cx.char("a2"), 0, 0, 0, cx.char("n0", [0, 1, 2, 3]), cx.char("d0")]
        content = cx.bytes_(head + [cx.char(f"c{i}") for i in range(n)])
        with virtual_files(cx, {"p.ips": content}):
            if spec.get("unit"):
                # the record-reading loop alone (the blocks it yields are then written like any other: C13)
                from a816.parse.nodes import IncludeIpsNode

                prog = new_program()
                return guarded(n + 30, lambda: "read:%d" % len(IncludeIpsNode("p.ips", prog.resolver, None).blocks))
            return guarded(n + 30, lambda: _drive("asm", "*=0x8000\n.include_ips 'p.ips', 0\nnop\n"))
    if fam == "for":
        a, b = cx.int("a", -2, 8), cx.int("b", -2, 8)
        p = new_program(syms={"a": a, "b": b})
        return guarded(40 + 12 * 10, lambda: "assembled" if p.assemble_string_with_emitter(".for i := a, b {\n .db i\n l:\n}\n", "m.s", RecWriter()) is None else "error-reported")
    if fam == "for2":
        a, b = cx.int("a", 0, 4), cx.int("b", 0, 4)
        p = new_program(syms={"a": a, "b": b})
        return guarded(60 + 16 * 16, lambda: "assembled" if p.assemble_string_with_emitter(".for i := 0, a {\n .for j := 0, b {\n .db i + j\n }\n}\n", "m.s", RecWriter()) is None else "error-reported")
    if fam == "rec":
        k = cx.int("k", 0, 8)
        p = new_program(syms={"k": k})
        src = ".macro rec(n) {\n .if n {\n nop\n rec(n - 1)\n }\n}\nrec(k)\n"
        return guarded(80 + 40 * 8, lambda: "assembled" if p.assemble_string_with_emitter(src, "m.s", RecWriter()) is None else "error-reported")
    raise ValueError(fam)


def on_timeout(spec, cx):
    return ["terminates-within-budget"]


def check(spec, cx, out):
    return [("terminates-within-budget", z3.BoolVal(out[0] == "done"))]
