"""C16 -- output does not depend on how the source text is laid out.

Symbolic: the characters of the inserted layout (filler slots over {space, tab}, comment bodies of
arbitrary characters, a case choice per letter of mnemonics / suffixes / index registers / hex
digits) and the data values of the templates.  Enumerated: template programs x insertion
position x kind of change; statement runs moved into an .include file; the main file and an included run with CRLF / CR line ends through the file API (runs of <= 2 lines also into a file without a final newline)."""
import re

import z3

from harness.common import RecWriter, blist, new_program, virtual_files
from oracles.isa65816 import MNEMONICS
from symx import bv

PROPERTY = "C16"

META = {
    "bounds": {
        "quick": "18 template programs (one of realistic size: macros applying macros, named scope, three `*=` blocks, relocated part) + the 2 repository samples; one layout change at a time at every applicable position: indentation (1-2 chars of {space,tab}), trailing spaces (1-2), spaces next to operators/commas/brackets, blank lines, full-line and end-of-line ; comments and /* */ comments with 0, 1 and 2 symbolic body characters, comments spelling keywords / braces (`; else`, `; }`, `; {`, `/* else */`, `; .if 1 {`), per-letter case of every mnemonic / suffix / index register / hex literal; every contiguous balanced statement run of <= 5 lines (whole macro definitions / scopes included) moved into an .include file; the main file and an included run with CRLF / CR line ends through the file API (runs of <= 2 lines also into a file without a final newline); data values symbolic",
        "thorough": "same with 3 symbolic comment characters, pairs of simultaneous changes (VERIF_SEED-drawn 300 pairs), include runs of <= 8 lines",
    },
    "outside": ["compositions of more than two changes", "layout changes not listed in the property (tabs before operands, spaces before ':' ...)", "comment bodies longer than 3 characters"],
    "oracle": "metamorphic: emitted blocks, addresses and Resolver.get_all_labels() of the re-laid-out text equal those of the canonical text for all slot characters and data values",
    "stubs": ["open(): virtual include files"],
    "assumptions": [],
}

OPTS = {"quick": {"deadline_s": 300}, "thorough": {"deadline_s": 900}}

TEMPLATES = [
    "*=0x8000\nstart:\nlda.w #v\nsta.l 0x7e0000,x\nlda (0x10),y\nlda [0x20],y\nlda (0x30,x)\nlda (0x03,s),y\nrts\n",
    "*=0x8000\n.db 1, 2, v\n.dw 0xabcd, v+1\n.dl start\nstart:\n.pointer start\n",
    "*=0x8000\na := 0x1f\nb := a + v\n.dw a, b, a<<2 & 0xff\n",
    "*=0x8000\na := 3\n.macro m(x, y) {\nlda.b #x\nldx.w #y\n}\nm(1, v)\nm(a, 0x10)\n",
    "*=0x8000\n.scope ns {\nl:\n.dw v\n}\n.dl ns.l\n{\nl:\nnop\n}\n",
    "*=0x8000\n.if v {\nnop\n} else {\nrts\n}\n.for i := 0, 3 {\n.db i\n}\n",
    "*=0x8000\nloop:\ndex\nbne loop\njmp.w loop\njsr.l 0x018000\n",
    "*=0x8000\n@=0x7e2000\nr:\n.dl r\n*=0x018000\n.dw v\n",
    "*=0x8000\n.ascii 'hi there'\ninc\ninc 0x10\nasl\nrol 0x1234,x\n",
    "*=0x8000\nlda.l 0x123456,x\nLDA.W 0x12,Y\nsta 0x10,s\nstx 0x20,y\n",
    "*=0x8000\npea.w start-1\nstart:\nlda #~v & 0xff\nlda.w #-1 + (v << 3)\n",
    "*=0x8000\njmp (0x1234)\njmp [0x1000]\neor (0x10,x)\neor [0x10]\nsbc 0x10,x\n",
    "*=0x8000\n.macro w(c) {\n{{c}}\nrts\n}\nw({\nnop\n})\n",
    "*=0x8000\nphp\npha\nrep #0x30\nsep #0x20\nxba\nplp\n",
    # a program of realistic size and mix (macros applying macros, loop in a macro, named scope with exported labels,
    # second `*=` block, relocated routine, forward references)
    "*=0x8000\nk := 0x12\n.macro store(addr, val) {\nlda.w #val\nsta.l addr\n}\n.macro fill(base, n) {\n.for i := 0, n {\nstore(base + i * 2, i)\n}\n}\n.scope gfx {\ninit:\nfill(0x7e2000, 2)\nrts\ntable:\n.dw table, v + k\n}\n*=0x018000\nmain:\njsr.w gfx.init\nloop:\ndex\nbne loop\n.dl gfx.table, fwd\nstore(fwd, k & 0xff)\n@=0x7e1000\nram:\nlda 0x10,x\njmp.w ram\n*=0x028000\nfwd:\n.db 1, 2\n.dl main, ram\n",
    # a conditional without else directly followed by a block (a comment in between must stay a comment)
    "*=0x8000\n.if v {\nlda #1\n}\n{\nldx #2\n}\n.if v & 1 {\nnop\n}\n.for i := 0, 2 {\n.db i\n}\nend:\n.dl end\n",
    # mnemonics that exist with and without an operand, operands of a single character
    "*=0x8000\nn := 3\nasl\nasl 4\ninc\ndec n\ninc 5\nror\nrol 7\nnop\n",
    # string literals holding layout characters: TAB, runs of spaces, comment openers
    "*=0x8000\n.ascii 'a\tb'\nl1:\n.ascii '\t\tz;not a comment'\n.ascii '  two  spaces  '\n.ascii '/* no comment */'\n.dl l1\n.dw v\n",
]

SAMPLE_PRELUDE = "*=0x8000\nsource = 0x123456\nvramptr = 0x10\ncount = 0x20\nmode = 1\ndma_transfer_to_vram = 0x028000\nvwf_shift_table = 0x7e1000\n"

OPS = {"+", "-", "*", "&", "|", "<<", ">>"}
TOKEN = re.compile(r"'[^'\n]*'|0x[0-9a-fA-F]+|[A-Za-z_][A-Za-z0-9_.]*:?|[0-9]+|<<|>>|\{\{|\}\}|:=|\*=|@=|==|!=|[^\sA-Za-z0-9_]")


def templates():
    import os

    out = list(TEMPLATES)
    repo = os.environ.get("A816_REPO", "/repo")
    for f in ("tests/samples/push_pull.s", "tests/samples/sample.s"):
        p = os.path.join(repo, f)
        if os.path.exists(p):
            body = "\n".join(line.strip() for line in open(p, encoding="utf-8").read().splitlines() if line.strip()) + "\n"
            out.append(SAMPLE_PRELUDE + body)
    return out


def analyse(text):
    """Atoms of the canonical text and the layout change sites.

    Returns (atoms, sites): atoms = list of strings whose concatenation is the text;
    sites = list of (kind, atom_index[, extra]) describing one applicable change each."""
    atoms, sites = [], []
    lines = text.split("\n")
    if lines and lines[-1] == "":
        lines = lines[:-1]
    for ln in lines:
        start = len(atoms)
        sites.append(("between", start))     # blank lines / comments before this statement
        sites.append(("indent", start))
        toks = TOKEN.findall(ln)
        is_instr = bool(toks) and toks[0].split(".")[0].lower() in MNEMONICS and not toks[0].endswith(":")
        pos = 0
        for ti, tk in enumerate(toks):
            # re-insert the canonical single spaces of the line
            idx = ln.index(tk, pos)
            if idx > pos:
                atoms.append(ln[pos:idx])
            pos = idx + len(tk)
            ai = len(atoms)
            atoms.append(tk)
            if tk in OPS or tk == ",":
                if not (tk in ("-", "~") and (ti == 0 or toks[ti - 1] in OPS | {",", "(", "[", "#"} )):
                    sites.append(("space", ai))          # before the operator / comma
                    sites.append(("space", ai + 1))      # after it
            if is_instr and tk in ("(", "[") and ti > 0:
                sites.append(("space", ai + 1))
            if is_instr and tk in (")", "]") and not (ti >= 2 and toks[ti - 2] == ","):
                # (a space between an index register and the bracket is not "between a bracket and
                #  the operand expression": left out)
                sites.append(("space", ai))
            if is_instr and ti == 0:
                mn, _, suf = tk.partition(".")
                sites.append(("case", ai, (0, len(mn))))
                if suf:
                    sites.append(("case", ai, (len(mn) + 1, len(tk))))
            if is_instr and ti > 0 and toks[ti - 1] == "," and tk.lower() in ("x", "y", "s"):
                sites.append(("case", ai, (0, 1)))
            if tk.startswith("0x") and any(c.isalpha() for c in tk[2:]):
                sites.append(("case", ai, (2, len(tk))))
        if pos < len(ln):
            atoms.append(ln[pos:])
        sites.append(("trailing", len(atoms)))
        sites.append(("eolcomment", len(atoms)))
        atoms.append("\n")
    return atoms, sites


def jobs(tier, seed):
    out = []
    tpls = templates()
    for ti, text in enumerate(tpls):
        atoms, sites = analyse(text)
        assert "".join(atoms) == text, (text, atoms)
        for si, site in enumerate(sites):
            variants = {"between": ["blank", "linecomment", "blockcomment", "blockcomment-inline", "blockcomment-empty", "blockcomment-short", "linecomment-empty", "kw-else", "kw-else-tight", "kw-close", "kw-open", "kw-block-else", "kw-if"], "indent": ["1", "2"], "trailing": ["1", "2"], "space": ["1"], "case": ["letters"], "eolcomment": ["c"]}[site[0]]
            for v in variants:
                out.append({"id": f"t{ti:02d}/{site[0]}{si:03d}/{v}", "fam": "slot", "tpl": ti, "sites": [[si, v]], "nc": 2 if tier == "quick" else 3})
        nlines = text.count("\n")
        maxrun = 5 if tier == "quick" else 8   # long enough to take a whole macro definition / scope into the included file
        for a in range(1, nlines):
            for b in range(a + 1, min(nlines, a + maxrun) + 1):
                run_text = "\n".join(text.split("\n")[a:b])
                depth, ok = 0, True
                for ch in run_text:
                    depth += ch == "{"
                    depth -= ch == "}"
                    ok = ok and depth >= 0
                if not ok or depth != 0 or run_text.count("(") != run_text.count(")"):
                    continue  # the run would cut a block in two
                out.append({"id": f"t{ti:02d}/include/{a}-{b}", "fam": "include", "tpl": ti, "a": a, "b": b})
                if b - a <= 2:
                    out.append({"id": f"t{ti:02d}/include-nonl/{a}-{b}", "fam": "include", "tpl": ti, "a": a, "b": b, "nonl": True})
    # line ends: a project kept with CRLF (or lone CR) line ends, assembled through the file API, with a run in an included file
    for ti in (0, 3, 4, 14):
        text = tpls[ti]
        nl = text.count("\n")
        for eol in ("crlf", "cr"):
            out.append({"id": f"t{ti:02d}/line-ends/{eol}/main", "fam": "eol", "tpl": ti, "eol": eol})
            for a in range(1, nl - 1, 3):
                b = min(nl - 1, a + 3)
                lines = text.split("\n")[a:b]
                depth = "\n".join(lines).count("{") - "\n".join(lines).count("}")
                if depth == 0 and all(l.count("{") <= 1 for l in lines) and "\n".join(lines).find("}") >= "\n".join(lines).find("{"):
                    out.append({"id": f"t{ti:02d}/line-ends/{eol}/include{a}-{b}", "fam": "eol", "tpl": ti, "eol": eol, "a": a, "b": b})
    if tier == "thorough":
        import random

        rnd = random.Random(seed * 31 + 7)
        slot_jobs = [j for j in out if j["fam"] == "slot"]
        for k in range(300):
            j1 = rnd.choice(slot_jobs)
            same = [j for j in slot_jobs if j["tpl"] == j1["tpl"] and j["sites"][0][0] != j1["sites"][0][0]]
            j2 = rnd.choice(same)
            s = sorted([j1["sites"][0], j2["sites"][0]])
            out.append({"id": f"t{j1['tpl']:02d}/pair{k:03d}", "fam": "slot", "tpl": j1["tpl"], "sites": s})
    return out


NONL = [c for c in range(256) if c != 10]


def _slot_chars(cx, tag, kind, variant, ncomment):
    """Characters inserted at a site."""
    sp_tab, sp = [0x20, 0x09], [0x20]
    if kind == "indent":
        return [cx.char(f"{tag}_{k}", sp_tab) for k in range(int(variant))]
    if kind == "trailing":
        return [cx.char(f"{tag}_{k}", sp) for k in range(int(variant))]
    if kind == "space":
        return [0x20]
    if kind == "eolcomment":
        return [0x20, ord(";")] + [cx.char(f"{tag}_{k}", NONL) for k in range(ncomment)]
    if variant == "blank":
        return [cx.char(f"{tag}_0", [0x20, 0x09, 0x0A]), cx.char(f"{tag}_1", [0x0A])]
    if variant == "linecomment":
        return [ord(";")] + [cx.char(f"{tag}_{k}", NONL) for k in range(ncomment)] + [0x0A]
    if variant == "linecomment-empty":
        return [ord(";"), 0x0A]
    KW = {"kw-else": "; else\n", "kw-else-tight": ";else\n", "kw-close": "; }\n", "kw-open": "; {\n", "kw-block-else": "/* else */\n", "kw-if": "; .if 1 {\n"}
    if variant in KW:
        # comments whose text spells a keyword or a brace: still comments
        return [ord(c) for c in KW[variant]]
    if variant in ("blockcomment-empty", "blockcomment-short"):
        # comments of 0 and 1 body characters (the 1-character body may be '*' or '/': `/***/`, `/*/*/`)
        ncomment = 0 if variant == "blockcomment-empty" else 1
    body = [cx.char(f"{tag}_{k}") for k in range(ncomment)]
    # the body must not contain the terminator "*/"
    for x, y in zip(body, body[1:]):
        cx.assume(z3.Not(z3.And(_t(x) == ord("*"), _t(y) == ord("/"))))
    tail = [0x20] if variant == "blockcomment-inline" else [0x0A]
    return [ord("/"), ord("*")] + body + [ord("*"), ord("/")] + tail


def _t(x):
    return z3.BitVecVal(x, 8) if isinstance(x, int) else x


def _assemble(src, syms, files, cx):
    p = new_program(syms=syms)
    w = RecWriter()
    with virtual_files(cx, files):
        try:
            err = p.assemble_string_with_emitter(src, "m.s", w)
        except Exception as e:  # noqa: BLE001
            return ("raise", type(e).__name__)
    if err is not None:
        return ("error",)
    return ("ok", w.blocks, p.resolver.get_all_labels())


def run(spec, cx):
    text = templates()[spec["tpl"]]
    v = cx.int("v", 0, 0xFFFF)
    syms = {"v": v}
    base = _assemble(text, syms, {}, cx)
    if spec["fam"] == "eol":
        from harness.common import new_program

        e = "\r\n" if spec["eol"] == "crlf" else "\r"
        lines = text.split("\n")[:-1]
        files = {}
        if "a" in spec:
            a, b = spec["a"], spec["b"]
            files["inc.s"] = (e.join(lines[a:b]) + e).encode("utf-8")
            lines = lines[:a] + [".include 'inc.s'"] + lines[b:]
        files["main.s"] = (e.join(lines) + e).encode("utf-8")
        p = new_program(syms=syms)
        w = RecWriter()
        with virtual_files(cx, files):
            try:
                rc = p.assemble_with_emitter("main.s", w)
            except Exception as ex:  # noqa: BLE001
                return (base, ("raise", type(ex).__name__))
        return (base, ("ok", w.blocks, p.resolver.get_all_labels()) if rc == 0 else ("error",))
    if spec["fam"] == "include":
        lines = text.split("\n")[:-1]
        a, b = spec["a"], spec["b"]
        inc = "\n".join(lines[a:b]) + ("" if spec.get("nonl") else "\n")     # with / without a final newline in the included file
        main = "\n".join(lines[:a] + [".include 'inc.s'"] + lines[b:]) + "\n"
        return (base, _assemble(main, syms, {"inc.s": inc}, cx))
    atoms, sites = analyse(text)
    ncomment = spec.get("nc", 2) if len(spec["sites"]) == 1 else 1
    inserts, cases = {}, {}
    for si, variant in spec["sites"]:
        site = sites[si]
        tag = f"s{si}"
        if site[0] == "case":
            cases[site[1]] = (site[2], tag)
        else:
            inserts.setdefault(site[1], [])
            inserts[site[1]] += _slot_chars(cx, tag, site[0], variant, ncomment)
    chars = []
    for ai, atom in enumerate(atoms):
        chars += inserts.get(ai, [])
        if ai in cases:
            (lo, hi), tag = cases[ai]
            for k, ch in enumerate(atom):
                if lo <= k < hi and ch.isalpha():
                    chars.append(cx.char(f"{tag}_{k}", sorted({ord(ch.lower()), ord(ch.upper())})))
                else:
                    chars.append(ord(ch))
        else:
            chars += [ord(c) for c in atom]
    chars += inserts.get(len(atoms), [])
    return (base, _assemble(cx.string(chars), syms, {}, cx))


def check(spec, cx, out):
    base, var = out
    if base[0] != "ok":
        return [("canonical-template-assembles", z3.BoolVal(False))]
    if var[0] != "ok":
        return [("relayout-still-assembles", z3.BoolVal(False))]
    _, b1, l1 = base
    _, b2, l2 = var
    conds = [z3.BoolVal(len(b1) == len(b2))]
    for (a1, d1), (a2, d2) in zip(b1, b2):
        x1, x2 = blist(d1), blist(d2)
        conds.append(bv(a1) == bv(a2))
        conds.append(z3.BoolVal(len(x1) == len(x2)))
        conds += [p == q for p, q in zip(x1, x2)]
    res = [("same-bytes-and-offsets", z3.And(*conds))]
    lc = [z3.BoolVal(len(l1) == len(l2))]
    for (n1, v1), (n2, v2) in zip(l1, l2):
        lc.append(z3.BoolVal(n1 == n2) if isinstance(n1, str) and isinstance(n2, str) else z3.BoolVal(False))
        lc.append(bv(v1) == bv(v2))
    res.append(("same-labels", z3.And(*lc)))
    return res
