"""C17 -- errors point at the statement that caused them.

Symbolic: the characters of what is inserted before the faulty statement (comment bodies incl.
newlines inside /* */, blank-line fillers), so the expected line is itself a term
base + sum([c_i == newline]).  Enumerated: error kind x insertion line x base program x
main file / included file."""
import z3

from harness.common import RecWriter, new_program, virtual_files

PROPERTY = "C17"

META = {
    "bounds": {
        "quick": "5 base programs (one holding the same operand texts, valid, in an earlier scope) x every insertion line x 15 error kinds (incl. unterminated /* comments; statements cut short by the end of a file without final newline) x 6 kinds of symbolic preamble (0-2 symbolic characters) x {main file, included file, main file through the file API (blank-line / comment preambles, 5 error kinds)}",
        "thorough": "same with 3 symbolic characters and two preambles stacked",
    },
    "outside": ["wording of the messages", "parser syntax errors other than a statement cut short by the end of a file that has no final newline", "preambles longer than the bound"],
    "oracle": "expected file name, zero-based line (newline count before the statement, a z3 term), line text and column computed from the source text",
    "stubs": ["open(): virtual include files", "print / logging discarded"],
    "assumptions": [],
}

OPTS = {"quick": {"deadline_s": 300}, "thorough": {"deadline_s": 900}}

BASES = [
    "*=0x8000\nstart:\nlda.w #0x1234\nrts\n",
    "*=0x8000\n.macro m(a) {\nlda.b #a\n}\nm(1)\n{\nnop\n}\n",
    "*=0x8000\n/* multi\nline\ncomment */\n.db 1, 2\n; c\n.scope ns {\nl:\n}\n",
    "*=0x8000\nx = 4\n.if x {\nnop\n}\n.for i := 0, 2 {\n.db i\n}\n",
    # the same operand / entry texts as the faulty statements, valid where they stand (the names are local to the scope)
    "*=0x8000\n.scope first {\nundefined_sym:\nlda.w undefined_sym\nsta.l undefined_sym + 1,x\n.dw 1, undefined_sym\n.db 1,\nundefined_sym + 1,\n3\n}\nnop\n",
]

# kind -> (statement text, class, column of the offending character inside the statement or None)
ERRORS = {
    "undef-operand": ("lda.w undefined_sym", "node", None),
    "undef-operand-expr": ("sta.l undefined_sym + 1,x", "node", None),
    "undef-data": (".dw 1, undefined_sym", "node", None),
    # a data list continued over several lines: the statement starts at its keyword
    "undef-data-multiline": (".dw 1,\n2,\nundefined_sym", "node", None),
    "undef-data-multiline-mid": (".db 1,\nundefined_sym + 1,\n3", "node", None),
    "bad-suffix": ("lda.q 0x10", "scan", [4]),
    "bad-suffix-eol": ("lda.", "scan", [4]),
    "bad-index": ("lda 0x10,q", "scan", [9]),
    "invalid-char": ("lda.w #0x10 $", "scan", [12]),
    "invalid-char-bol": ("$", "scan", [0]),
    "unterminated-string": (".ascii 'abc", "scan", [7, 11]),
    "unterminated-string-data": (".text 'x", "scan", [6, 8]),
    "unterminated-comment": ("/* never closed", "scan", [0]),
    "unterminated-comment-multiline": ("/* never\nclosed ;", "scan", [0]),
    # statements cut short by the end of the file (only used as the last line of a file without final newline)
    "cut-short-operand": ("lda #", "node", None),
    "cut-short-data": (".db 1, 2,", "node", None),
    # '?' = symbolic character (any but newline and quote): the content of the unterminated string
    "unterminated-string-any-content": (".ascii '??", "scan", [7, 10]),
}

WRAPS = {
    "macro": (".macro em(zz) {", "}\nem(1)"),
    "macro-twice": (".macro em(zz) {", "}\nnop\nem(1)\nem(2)"),
    "loop": (".for li := 0, 2 {", "}"),
    "block": ("{", "}"),
    "scope": (".scope es {", "}"),
    "if": (".if 1 {", "}"),
    "else": (".if 0 {\nnop\n} else {", "}"),
}
NONL = [c for c in range(256) if c != 10]
STRCHARS = [c for c in range(256) if c not in (10, 0x27)]


def insertion_points(base):
    """Line indexes at top level where a statement can be inserted (not inside a multi-line comment)."""
    lines = base.split("\n")[:-1]
    pts, in_comment, depth = [], False, 0
    for i, ln in enumerate(lines + [""]):
        if not in_comment and depth == 0:
            pts.append(i)
        if i < len(lines):
            if "/*" in ln and "*/" not in ln:
                in_comment = True
            elif "*/" in ln:
                in_comment = False
            depth += ln.count("{") - ln.count("}")
    return pts


def jobs(tier, seed):
    out = []
    n = 2 if tier == "quick" else 3
    for bi, base in enumerate(BASES):
        for pt in insertion_points(base):
            for ek in ERRORS:
                if ek.startswith("cut-short") or (ek.startswith("unterminated-comment") and "*/" in base):
                    continue      # (a later */ of the base program would close the comment)
                for pre in ("linecomment", "blockcomment", "blank", "blockcomment-sameline", "number-at-eol", "blockcomment-empty"):
                    for where in ("main", "included", "file"):
                        if where == "file" and (pre not in ("blank", "linecomment") or ek not in ("undef-operand", "undef-data", "bad-index", "invalid-char-bol", "unterminated-string")):
                            continue
                        if bi == 4 and (not ek.startswith("undef") or pre not in ("linecomment", "blank")):
                            continue
                        if where == "included" and bi not in (0, 2, 4):
                            continue
                        out.append({"id": f"b{bi}/at{pt}/{ek}/{pre}/{where}", "base": bi, "at": pt, "err": ek, "pre": pre, "where": where, "n": n})
    # the faulty statement inside a construct (the location is that of the statement itself, also when
    # the construct is expanded elsewhere: macro body, loop body)
    for bi in (0, 2):
        for pt in insertion_points(BASES[bi])[:2] + insertion_points(BASES[bi])[-1:]:
            for ek in ("undef-operand", "undef-data", "undef-data-multiline", "bad-index", "unterminated-string"):
                for w in WRAPS:
                    for where in ("main", "included"):
                        out.append({"id": f"b{bi}/at{pt}/{ek}/in-{w}/{where}", "base": bi, "at": pt, "err": ek, "pre": "linecomment", "where": where, "n": n, "wrap": w})
    # ... and as the last line of its file, the file ending without a newline (lexical errors that run into the end of input)
    for ek in ("unterminated-string", "unterminated-string-any-content", "bad-suffix-eol", "invalid-char-bol", "bad-index", "undef-operand",
               "unterminated-comment", "unterminated-comment-multiline", "cut-short-operand", "cut-short-data"):
        for pre in ("linecomment", "blank"):
            for where in ("main", "included"):
                out.append({"id": f"b0/eof/{ek}/{pre}/{where}", "base": 0, "at": len(BASES[0].split(chr(10))) - 1, "err": ek, "pre": pre, "where": where, "n": n, "eof": True})
    if tier == "thorough":
        for bi in (0, 2):
            for pt in insertion_points(BASES[bi])[:3]:
                for ek in ERRORS:
                    if ek.startswith("cut-short") or (ek.startswith("unterminated-comment") and "*/" in BASES[bi]):
                        continue
                    out.append({"id": f"b{bi}/at{pt}/{ek}/stacked/main", "base": bi, "at": pt, "err": ek, "pre": "stacked", "where": "main", "n": 2})
    return out


def preamble(spec, cx):
    n, pre = spec["n"], spec["pre"]

    def block(tag, k, tail):
        body = [cx.char(f"{tag}{i}") for i in range(k)]
        for x, y in zip(body, body[1:]):
            cx.assume(z3.Not(z3.And(_t(x) == ord("*"), _t(y) == ord("/"))))
        return [ord("/"), ord("*")] + body + [ord("*"), ord("/")] + tail

    if pre == "number-at-eol":
        # valid statements that end in a (symbolic) digit right before the newline
        dig = list(range(0x30, 0x3A))
        return [ord(c) for c in ".db 1, "] + [cx.char("c0", dig), 10] + [ord(c) for c in "lda #"] + [cx.char("c1", dig), 10]
    if pre == "linecomment":
        return [ord(";")] + [cx.char(f"c{i}", NONL) for i in range(n)] + [10]
    if pre == "blockcomment-empty":
        # `/**/` and a one-character body, on the statement's own line
        return block("c", 0, [32]) + block("d", 1, [32])
    if pre == "blockcomment":
        return block("c", n, [10])
    if pre == "blockcomment-sameline":
        return block("c", n, [32])
    if pre == "blank":
        return [cx.char(f"c{i}", [32, 9, 10]) for i in range(n)] + [10]
    return block("c", n, [10]) + [ord(";")] + [cx.char(f"e{i}", NONL) for i in range(n)] + [10] + [cx.char("f0", [32, 9, 10]), 10]


def _t(x):
    return z3.BitVecVal(x, 8) if isinstance(x, int) else x


def build(spec, cx):
    """(chars of the file that contains the error, index of the statement's first char, statement text)."""
    base = BASES[spec["base"]]
    lines = base.split("\n")[:-1]
    head = "\n".join(lines[: spec["at"]]) + ("\n" if spec["at"] else "")
    tail = "\n".join(lines[spec["at"]:]) + ("\n" if lines[spec["at"]:] else "")
    stmt = ERRORS[spec["err"]][0]
    pre = preamble(spec, cx)
    chars = [ord(c) for c in head] + pre
    closing = ""
    if spec.get("wrap"):
        open_, closing = WRAPS[spec["wrap"]]
        chars += [ord(c) for c in open_ + "\n"]
    idx = len(chars)
    body = []
    for k, c in enumerate(stmt):
        body.append(cx.char(f"q{k}", STRCHARS) if c == "?" else ord(c))
    if spec.get("eof"):
        return chars + body, idx, body        # nothing after the statement, not even a newline
    chars += body + [10] + [ord(c) for c in (closing + "\n" if closing else "")] + [ord(c) for c in tail]
    return chars, idx, body


def _run_file_api(spec, cx, chars):
    """The main file through the file API (Program.assemble_with_emitter): the error text is what gets logged."""
    import logging

    msgs = []

    class H(logging.Handler):
        def handle(self, record):
            msgs.append(record.msg)
            return True

    names = ("x816", "a816", "a816.program")
    saved = []
    old_disable = logging.root.manager.disable
    logging.disable(logging.NOTSET)
    h = H(level=logging.DEBUG)
    for n in names:
        lg = logging.getLogger(n)
        saved.append((lg, lg.level, lg.propagate))
        lg.setLevel(logging.DEBUG)
        lg.propagate = False
        lg.addHandler(h)
    try:
        p = new_program()
        with virtual_files(cx, {"zq.s": cx.string(chars)}):
            try:
                rc = p.assemble_with_emitter("zq.s", RecWriter())
            except Exception as e:  # noqa: BLE001
                return ("other-exception", type(e).__name__)
    finally:
        for lg, lvl, prop in saved:
            lg.removeHandler(h)
            lg.setLevel(lvl)
            lg.propagate = prop
        logging.disable(old_disable)
    if rc == 0:
        return ("no-error",)
    texts = [m for m in msgs if _chars_of(m) is not None and _find_location(_chars_of(m), "zq.s") is not None]
    if not texts:
        return ("other-exception", "no located message logged")
    return ("error-string", texts[0])


def run(spec, cx):
    chars, idx, stmt = build(spec, cx)
    if spec["where"] == "file":
        return _run_file_api(spec, cx, chars)
    if spec["where"] == "main":
        src, files, fname = cx.string(chars), {}, "zq.s"
    else:
        src, files, fname = "*=0x8000\nnop\n.include 'inc.s'\nrts\n", {"inc.s": cx.string(chars)}, "inc.s"
    p = new_program()
    with virtual_files(cx, files):
        try:
            err = p.assemble_string_with_emitter(src, "zq.s", RecWriter())
        except Exception as e:  # noqa: BLE001
            from a816.parse.nodes import NodeError

            if isinstance(e, NodeError):
                return ("node-error", _msg(e))
            from a816.parse.errors import ScannerException

            if isinstance(e, ScannerException):
                # scan error inside an included file escapes as the exception itself
                pos = e.position
                return ("scan-exception", pos.file.filename, pos.line, pos.column, pos.get_line())
            return ("other-exception", type(e).__name__)
    if err is None:
        return ("no-error",)
    return ("error-string", err)


def _msg(e):
    try:
        return str(e)
    except TypeError:
        return type(e).__str__(e)


def _chars_of(s):
    """list of code points / 8-bit terms of a str / SStr."""
    from symx.values import SStr

    if isinstance(s, str):
        return [ord(c) for c in s]
    if isinstance(s, SStr):
        return list(s.c)
    return None


def _find_location(chars, fname):
    """Find `<fname>:<digits>[:<digits>]` in the message; returns (line, column|None, index after)."""
    skel = "".join(chr(c) if isinstance(c, int) else "\x00" for c in chars)
    i = skel.find(fname + ":")
    if i < 0:
        return None
    j = i + len(fname) + 1
    k = j
    while k < len(skel) and skel[k].isdigit():
        k += 1
    if k == j:
        return None
    line = int(skel[j:k])
    col = None
    if k < len(skel) and skel[k] == ":":
        m = k + 1
        neg = m < len(skel) and skel[m] == "-"
        if neg:
            m += 1
        e = m
        while e < len(skel) and skel[e].isdigit():
            e += 1
        if e > m:
            col = int(skel[m:e]) * (-1 if neg else 1)
            k = e
    return line, col, k


def check(spec, cx, out):
    stmt, cls, cols = ERRORS[spec["err"]]
    # rebuild the file text to compute the expectations
    shadow = _Replay(cx)
    chars, idx, _ = build(spec, shadow)
    fname = "zq.s" if spec["where"] in ("main", "file") else "inc.s"
    from vf.oraclex import oracle_cases

    def structure(decide):
        """(expected line, index of the line's first character) under the decided newline structure."""
        is_nl = [(c == 10) if isinstance(c, int) else bool(decide(c == 10)) for c in chars[:idx]]
        last_nl = max([i for i, x in enumerate(is_nl) if x], default=-1)
        return sum(1 for x in is_nl if x), last_nl + 1

    if out[0] in ("no-error", "other-exception"):
        return [("error-reported-as-node-or-scan-error", z3.BoolVal(False))]
    loc_conds, col_conds = [], []
    for assum, st in oracle_cases(cx, structure):
        if st is None:
            continue
        pre = z3.And(*assum) if assum else z3.BoolVal(True)
        exp_line, line_start = st
        exp_text = chars[line_start: idx] + list(chars[idx: idx + len(stmt.split("\n")[0])])
        col0 = idx - line_start
        if out[0] == "scan-exception":
            _, f, line, col, text = out
            tchars = _chars_of(text)
            loc_conds.append(z3.Implies(pre, z3.And(z3.BoolVal(f == fname), z3.BoolVal(line == exp_line), _text_eq(tchars, exp_text))))
            if cols:
                col_conds.append(z3.Implies(pre, z3.BoolVal(col in [col0 + c for c in cols])))
            continue
        msg = _chars_of(out[1])
        if msg is None:
            return [("message-is-text", z3.BoolVal(False))]
        loc = _find_location(msg, fname)
        if loc is None:
            return [("names-file-line-and-text", z3.BoolVal(False))]
        line, col, _ = loc
        loc_conds.append(z3.Implies(pre, z3.And(z3.BoolVal(line == exp_line), _contains_line(msg, exp_text))))
        if cls == "scan" and cols:
            col_conds.append(z3.Implies(pre, z3.BoolVal(col is not None and col in [col0 + c for c in cols])))
    res = [("names-file-line-and-text", z3.And(*loc_conds) if loc_conds else z3.BoolVal(True))]
    if col_conds:
        res.append(("column-of-offending-character", z3.And(*col_conds)))
    return res


def _text_eq(got, exp):
    if got is None or len(got) != len(exp):
        return z3.BoolVal(False)
    cs = []
    for a, b in zip(got, exp):
        if isinstance(a, int) and isinstance(b, int):
            if a != b:
                return z3.BoolVal(False)
        else:
            cs.append(_t(a) == _t(b))
    return z3.And(*cs) if cs else z3.BoolVal(True)


def _contains_line(msg, exp):
    """The message quotes the line: some window of the message equals the expected line text."""
    n, m = len(msg), len(exp)
    alts = []
    for i in range(0, n - m + 1):
        # the quoted line is delimited (start of message / space / newline before, end or newline after)
        if i > 0 and isinstance(msg[i - 1], int) and msg[i - 1] not in (32, 10):
            continue
        if i + m < n and isinstance(msg[i + m], int) and msg[i + m] != 10:
            continue
        t = _text_eq(msg[i: i + m], exp)
        if not z3.is_false(t):
            alts.append(t)
    return z3.Or(*alts) if alts else z3.BoolVal(False)


class _Replay:
    """Ctx stand-in that hands back the already declared holes (used to rebuild the text in check)."""

    def __init__(self, cx):
        self.cx = cx
        self.symbolic = cx.symbolic

    def char(self, name, allowed=None):
        t = self.cx.t(name)
        if not self.cx.symbolic:
            return z3.simplify(t).as_long()
        return z3.Extract(7, 0, t) if t.size() != 8 else t

    def assume(self, term):
        pass
