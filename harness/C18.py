"""C18 -- table-encoded text follows the table and round-trips.

Symbolic: the characters of the string (free slots over the table alphabet + brackets + unknown
characters; escape templates [0x??] with symbolic hex digits).  Enumerated: a family of tables
(single / multi-character texts, 1-2 byte codes, overlapping prefixes) loaded by the real Table
from (virtual) .tbl files; string templates; direct codec use and the .text directive in nested
scopes."""
import z3

from harness.common import B, assemble, blist, virtual_files
from oracles.table import parse_table, tokenize, unique_prefix_free
from vf.oraclex import oracle_cases
from symx import bv

PROPERTY = "C18"

TABLES = {
    "single": "01=a\n02=b\n03=c\n",
    "overlap": "01=a\n02=b\n03=ab\n",
    "multibyte": "01=a\n0203=b\n04=abc\n",
    "brackets": "10=[end]\n11=e\n12=[\n13=]\n",
    "nested": "01=ab\n02=abc\n03=abcd\n04=b\n",
    "twobyte": "0101=a\n0102=b\n0201=c\n",
    "newline": "01=\\n\n02=n\n03=a\n",
    "digits": "30=0\n31=x\n32=[0\n33=1\n",
    "dupcode": "01=a\n01=b\n02=c\n",
    "prefixcode": "01=a\n0102=b\n02=c\n",
    "ignore": "05:1=[d]\n06=d\n07=a\n",
    "longest3": "01=a\n02=aa\n03=aaa\n04=b\n",
    "mixedcase": "41=A\n61=a\n42=B\n",
    "space": "20= \n21=a \n22=a\n",
    "leading-blank": "80= t\n81=t\n82= \n83=\tq\n84=q\n",
    "quote": "27='\n01=a\n02=a'\n03=b\n",
    # entry texts that str.splitlines() would treat as line ends (the table file's lines end at newlines only)
    "linebreak-chars": "fc=\x0c\nfb=\x0b\n85=\x85\n1c=\x1c\n01=a\n02=a\x0cb\n",
}
# .text literals with an escaped quote (first, last, in the middle, doubled); the backslash has no table entry
QUOTE_TEMPLATES = ["\\'", "?\\'", "\\'?", "?\\'?", "?\\'\\'"]
QUICK_TABLES = ["single", "overlap", "multibyte", "brackets", "nested", "twobyte", "digits", "longest3", "ignore", "leading-blank", "quote", "linebreak-chars"]

# string templates: '?' = free symbolic character, 'h' = symbolic hex digit, others literal
# 'L' = the first character of the table's first entry (a literal run in front of an escape: the escape then starts
# at an offset larger than its own length)
TEMPLATES_QUICK = ["", "?", "??", "???", "[0xhh]", "?[0xhh]", "[0xhh]?", "[0xh]?", "[0xhhh]", "[0x]?", "??[0xhh]", "LLLLLLL[0xhh]?", "LL[0xhh]LLLLLL[0xhh]"]
TEMPLATES_THOROUGH = TEMPLATES_QUICK + ["????", "?[0xhh]?", "[0xhh][0xhh]", "??[0xhh]?", "[[0xhh]", "[0xhh]]"]

META = {
    "bounds": {
        "quick": "12 tables x 13 string templates (up to 3 free symbolic characters over the table alphabet + '[' ']' '0' 'x' + two unknown characters; escapes with symbolic hex digits); codec API and .text directive (top level, inherited scope, scope with its own table); literals with escaped quotes (first / last / middle / doubled) over a table with an entry for the quote",
        "thorough": "17 tables x 19 templates (up to 4 free characters, two escapes)",
    },
    "outside": ["escapes with 1 or >= 3 hex digits (statement says NN): any behaviour accepted", "characters above 255", "strings longer than the templates", "backslash (other than escaping a quote) / newline inside the .text literal; tables with an entry for the backslash"],
    "oracle": "oracles/table.py: independent .tbl parser and longest-match tokeniser, executed relative to the implementation's path condition (vf/oraclex.py)",
    "stubs": ["open(): virtual .tbl files", "re: symbolic backtracking matcher generated from the tree's patterns (symx/symre.py, differential self-test at start-up)"],
    "assumptions": [],
}

OPTS = {"quick": {"deadline_s": 600}, "thorough": {"deadline_s": 1800}}

HEX = sorted(ord(c) for c in "0123456789abcdefABCDEF")


def alphabet(table_src):
    chars = set()
    for text in parse_table(table_src):
        chars.update(ord(c) for c in text if ord(c) < 256 and c not in "'\\\n")
    chars.update(ord(c) for c in "[]0x")
    chars.update([ord("z"), ord("Q")])
    return sorted(chars)


def jobs(tier, seed):
    tables = QUICK_TABLES if tier == "quick" else list(TABLES)
    templates = TEMPLATES_QUICK if tier == "quick" else TEMPLATES_THOROUGH
    out = []
    for tn in tables:
        for ti, tpl in enumerate(templates):
            out.append({"id": f"codec/{tn}/{ti:02d}", "fam": "codec", "table": tn, "tpl": tpl})
        for tpl in (["?", "??", "?[0xhh]"] if tier == "quick" else ["?", "??", "???", "?[0xhh]", "[0xhh]?"]):
            out.append({"id": f"directive/{tn}/{tpl}", "fam": "directive", "table": tn, "tpl": tpl})
        for tpl in (["??"] if tier == "quick" else ["?", "??", "?[0xhh]"]):
            out.append({"id": f"reload/{tn}/{tpl}", "fam": "reload", "table": tn, "tpl": tpl})
        if tn == "quote":
            for qi, tpl in enumerate(QUOTE_TEMPLATES):
                out.append({"id": f"directive/{tn}/escaped-quote{qi}", "fam": "directive", "table": tn, "tpl": tpl})
                out.append({"id": f"reload/{tn}/escaped-quote{qi}", "fam": "reload", "table": tn, "tpl": tpl})
    return out


def preflight(tier):
    from symx import symre

    try:
        symre.selftest()
    except AssertionError as e:
        return {"inconclusive": [str(e)], "violations": [], "info": {}}
    return {"inconclusive": [], "violations": [], "info": {"regex_shim_selftest": "ok"}}


def _first_char(table_name):
    return ord(next(iter(parse_table(TABLES[table_name])))[0])


def build_chars(spec, cx):
    alpha = alphabet(TABLES[spec["table"]])
    chars = []
    for i, c in enumerate(spec["tpl"]):
        if c == "?":
            chars.append(cx.char(f"c{i}", alpha))
        elif c == "h":
            chars.append(cx.char(f"c{i}", HEX))
        elif c == "L":
            chars.append(_first_char(spec["table"]))
        else:
            chars.append(ord(c))
    return chars


def run(spec, cx):
    chars = build_chars(spec, cx)
    s = cx.string(chars)
    tsrc = TABLES[spec["table"]]
    if spec["fam"] == "codec":
        from script import Table

        with virtual_files(cx, {"t.tbl": tsrc}):
            T = Table("t.tbl")
        try:
            b = T.to_bytes(s)
        except Exception as e:  # noqa: BLE001
            return ("encode-raised", type(e).__name__)
        try:
            rt = T.to_text(b)
        except Exception as e:  # noqa: BLE001
            rt = ("decode-raised", type(e).__name__)
        return ("encoded", b, rt)
    other = "7f=a\n7e=b\n7d=[\n"
    if spec["fam"] == "reload":
        # a table loaded AFTER a .text (same scope, and in a nested scope): text written before the
        # load keeps the table that was in force where it is written
        src = cx.string(
            [ord(c) for c in "*=0x8000\n.table 't.tbl'\n.text '"] + chars + [ord(c) for c in "'\n.db 0xEE\n.table 'u.tbl'\n.text '"] + chars
            + [ord(c) for c in "'\n.db 0xEE\n{\n.text '"] + chars + [ord(c) for c in "'\n.db 0xEE\n.table 't.tbl'\n.text '"] + chars + [ord(c) for c in "'\n}\n"]
        )
        with virtual_files(cx, {"t.tbl": tsrc, "u.tbl": other}):
            r = assemble(src, {})
        if r[0] == "ok":
            return ("assembled", [(a, b) for a, b in r[1]])
        return ("rejected", "error-string" if r[0] == "error" else type(r[1]).__name__)
    src = cx.string(
        [ord(c) for c in "*=0x8000\n.table 't.tbl'\n.text '"] + chars + [ord(c) for c in "'\nm1:\n.db 0xEE\n{\n.text '"] + chars
        + [ord(c) for c in "'\nm2:\n.dl m2\n}\n{\n.table 'u.tbl'\n.text '"] + chars + [ord(c) for c in "'\nm3:\n.dl m3\n}\n.dl m1\n"]
    )
    with virtual_files(cx, {"t.tbl": tsrc, "u.tbl": other}):
        r = assemble(src, {})
    if r[0] == "ok":
        return ("assembled", [(a, b) for a, b in r[1]])
    return ("rejected", "error-string" if r[0] == "error" else type(r[1]).__name__)


def _expected_bytes(tokens):
    out = []
    for t in tokens:
        if t[0] == "code":
            out += [B(x) for x in t[1]]
        else:
            out.append(t[1])
    return out


def check(spec, cx, out):
    chars = [cx.t(f"c{i}") if c in "?h" else _first_char(spec["table"]) if c == "L" else ord(c) for i, c in enumerate(spec["tpl"])]
    table = parse_table(TABLES[spec["table"]])
    res = []
    if spec["fam"] == "codec":
        cases = oracle_cases(cx, lambda decide: tokenize(chars, table, decide))
        conds, rconds = [], []
        upf = unique_prefix_free(table)
        for assum, tokens in cases:
            pre = z3.And(*assum) if assum else z3.BoolVal(True)
            if tokens is None:
                continue
            raw = [t for t in tokens if t[0] == "raw"]
            if out[0] == "encode-raised":
                conds.append(z3.Not(pre))
                continue
            exp = _expected_bytes(tokens)
            bs = blist(out[1])
            if len(bs) != len(exp):
                conds.append(z3.Not(pre))
            else:
                conds.append(z3.Implies(pre, z3.And(*[a == b for a, b in zip(bs, exp)]) if exp else z3.BoolVal(True)))
            if upf and not raw:
                want = "".join(t[2] for t in tokens)
                rt = out[2]
                same = isinstance(rt, str) and rt == want
                rconds.append(z3.Implies(pre, z3.BoolVal(same)))
        res.append(("to_bytes-longest-match", z3.And(*conds) if conds else z3.BoolVal(True)))
        res.append(("round-trip", z3.And(*rconds) if rconds else z3.BoolVal(True)))
        return res
    # directive: three .text of the same string under t.tbl, inherited t.tbl, own u.tbl
    if out[0] != "assembled":
        return [("text-directive-assembles", z3.BoolVal(False))]
    blocks = out[1]
    if len(blocks) != 1:
        return [("single-block", z3.BoolVal(False))]
    bs = blist(blocks[0][1])
    other = parse_table("7f=a\n7e=b\n7d=[\n")
    cases = oracle_cases(cx, lambda decide: (tokenize(chars, table, decide), tokenize(chars, other, decide)))
    conds = []
    for assum, (tk1, tk2) in cases:
        pre = z3.And(*assum) if assum else z3.BoolVal(True)
        if tk1 is None or tk2 is None:
            continue
        e1, e2 = _expected_bytes(tk1), _expected_bytes(tk2)
        if spec["fam"] == "reload":
            exp = e1 + [B(0xEE)] + e2 + [B(0xEE)] + e2 + [B(0xEE)] + e1
            if len(exp) != len(bs):
                conds.append(z3.Not(pre))
            else:
                conds.append(z3.Implies(pre, z3.And(*[a == b for a, b in zip(bs, exp)])))
            continue
        m1 = 0x8000 + len(e1)
        m2 = m1 + 1 + len(e1)
        m3 = m2 + 3 + len(e2)
        le3 = lambda m: [B(m & 0xFF), B((m >> 8) & 0xFF), B(m >> 16)]  # noqa: E731
        exp = e1 + [B(0xEE)] + e1 + le3(m2) + e2 + le3(m3) + le3(m1)
        if len(exp) != len(bs):
            conds.append(z3.Not(pre))
        else:
            conds.append(z3.Implies(pre, z3.And(*[a == b for a, b in zip(bs, exp)])))
    res.append(("text-uses-table-in-force-where-written" if spec["fam"] == "reload" else "text-bytes-and-size-per-scope-table", z3.And(*conds) if conds else z3.BoolVal(True)))
    return res
