"""C19 -- assemblies are independent of each other and repeatable.

Every job runs in a fresh worker process: the probe is assembled first (pristine process),
then a history of other assemblies runs in the same process (valid, failing part-way, custom
.map, other ROM type, macro / symbol / table definitions, file API and CLI entry points), then
the probe again.  Symbolic: the values used by the history programs and by the probe; the
probe's output terms, labels and error must be identical before and after the history for all
values -- in particular no history variable may occur in the probe's result."""
import itertools
import logging
import random

import z3

from harness.common import RecWriter, blist, virtual_files
from symx import bv

PROPERTY = "C19"

META = {
    "bounds": {
        "quick": "20 probes x every single history item (26) + 120 VERIF_SEED-drawn histories of 2-3 items; history values hv (16 bit) and probe value pv (16 bit) symbolic; each job in a fresh process, probe run before and after the history; 8 probes with hand-derived expected output x every history item with the history run first (process never saw the probe)",
        "thorough": "15 probes x every history of <= 2 items + 300 drawn histories of 3",
    },
    "outside": ["histories longer than 3 assemblies", "state outside the Python process (files are virtual)"],
    "oracle": "non-interference: probe result after the history == probe result in the pristine process (same symbolic terms), and a second repetition gives the same result again",
    "stubs": ["open(): virtual files", "argparse / logging.basicConfig stubbed for the CLI history item"],
    "assumptions": ["re-execution of a path starts from the state left by earlier paths of the same job; the first path of every job starts from a pristine process and counterexamples are replayed in a fresh process"],
}

OPTS = {"quick": {"deadline_s": 300, "fresh_process": True, "fresh_plain": True}, "thorough": {"deadline_s": 900, "fresh_process": True, "fresh_plain": True}}

MAPSRC = ".map identifier=1 bank_range=0x00, 0x3f addr_range=0x0000, 0xffff mask=0x10000 mirror_bank_range=0x80, 0xbf\n"

# history items: (rom type, source, files)
HISTORY = {
    "valid": ("low", "*=0x8000\nstart:\n.db hv\n.dl start\n", {}),
    "valid-high-bank40": ("high", "*=0x408000\nh40:\n.dw hv\n.dl h40\n*=0x7D8000\n.db 1\n", {}),
    "valid-high": ("high", "*=0xC08000\nstart:\n.dw hv\n.dl start\n", {}),
    "fail-node-error": ("low", "*=0x8000\n.db 1\nlda.w nosuch\n.db 2\n", {}),
    "fail-nested": ("low", "*=0x8000\n{\n{\n.macro m(a) {\n.dw a, nosuch\n}\nm(hv)\n}\n}\n", {}),
    "fail-scan": ("low", "*=0x8000\nlabel:\nlda.q 0\n", {}),
    "fail-syntax": ("low", "*=0x8000\n.scope ns {\nl:\n", {}),
    "fail-unmapped": ("low", "*=0x8000\n.db 1\n*=0x700000\n.db 2\n", {}),
    "fail-in-loop": ("low", "*=0x8000\n.for i := 0, 3 {\n.scope s {\n.db nosuch\n}\n}\n", {}),
    "custom-map": ("low", MAPSRC + "*=0x001000\nm:\n.db hv\n.dl m\n", {}),
    "custom-map-fail": ("low", MAPSRC + "*=0x001000\n.db nosuch\n", {}),
    # the built-in LoROM geometry re-declared by hand, spelling out writable=0 / writable=1, used at the probes' addresses
    "custom-map-writable0": ("low", ".map identifier=1 bank_range=0x00, 0x6f addr_range=0x8000, 0xffff mask=0x8000 writable=0\n*=0x8000\nm:\n.db hv, 1, 2, 3, 4, 5, 6, 7, 8, 9\n.dl m\n*=0x018000\n.db 1\n", {}),
    "custom-map-writable1": ("low", ".map identifier=1 bank_range=0x00, 0x6f addr_range=0x8000, 0xffff mask=0x8000 writable=1\n*=0x8000\nm:\n.db hv, 1, 2, 3, 4, 5, 6, 7, 8, 9\n.dl m\n*=0x018000\n.db 1\n", {}),
    # the very file the probes include (same name, same bytes), included with other deltas
    "same-ips-other-delta": ("low", "*=0x8000\n.include_ips 'p.ips', 0x40\n.include_ips 'p.ips', 0 - 0x10\n", {"p.ips": b"PATCH\x00\x01\x00\x00\x02xyEOF"}),
    # a source that lives in another directory, with files of the probes' names next to it (they stay on disk afterwards)
    "in-other-directory": ("low", "*=0x8000\n.include 'hdir/p.s'\n.table 'hdir/p.tbl'\n.text 'ab'\n.incbin 'hdir/p.bin'\n",
                           {"hdir/p.s": ".db 0x11, 0x12\nhdir_label:\n", "hdir/p.tbl": "3131=a\n32=b\n", "hdir/p.bin": b"\x51\x52", "hdir/p.ips": b"PATCH\x00\x02\x00\x00\x01qEOF"}, "hdir/main.s"),
    "defs-macro": ("low", "*=0x8000\n.macro m(a) {\n.db a, 0x99\n}\n.macro w(c) {\n{{c}}\n}\nm(hv)\nw({\nnop\n})\n", {}),
    "defs-symbols": ("low", "*=0x9000\nsym = hv\nx := hv + 1\nstart:\nloop:\nl:\n.dw sym, x\n.scope ns {\nl:\n}\n", {}),
    "defs-table": ("low", "*=0x8000\n.table 'h.tbl'\n.text 'ab'\n.ascii 'ab'\nt_end:\n.dl t_end\n", {"h.tbl": "7f7f7f=a\n7e=b\n"}),
    "relocated": ("low", "*=0x8000\n@=0x7e1000\nr:\n.dl r\n.db hv\n", {}),
    # the same file names as the probes use, holding other contents
    "same-file-names": ("low", "*=0x8000\n.table 'p.tbl'\n.text 'ab'\n.incbin 'p.bin'\n.include 'p.s'\n.include_ips 'p.ips', 0x10\n",
                        {"p.tbl": "7171=a\n72=b\n", "p.bin": b"\x99\x98\x97\x96\x95", "p.s": ".db 0x77, 0x78\nincluded_label:\n", "p.ips": b"PATCH\x00\x00\x40\x00\x03abcEOF"}),
    "fail-inside-include": ("low", "*=0x8000\n.db 1\n.include 'p.s'\n.db 2\n", {"p.s": "nop\nlda.q 0\n"}),
    "fail-syntax-inside-include": ("low", "*=0x8000\n.include 'p.s'\n", {"p.s": "{\nnop\n"}),
    "fail-inside-table": ("low", "*=0x8000\n.table 'p.tbl'\n.text 'ab'\n.dw nosuch\n", {"p.tbl": "616161=a\n62=b\n"}),
    "fail-inside-ips": ("low", "*=0x8000\n.include_ips 'p.ips', 0\n", {"p.ips": b"PATCH\x00\x01"}),
    "file-api": ("low", None, {}),
    "cli": ("low", None, {}),
}

PROBES = {
    "simple": ("low", "*=0x8000\nstart:\nlda.w #pv\nloop:\ndex\nbne loop\n.dl start, loop\n", {}),
    "inferred": ("low", "*=0x8123\nlda pv\nl:\n.dl l\n", {}),
    "undef-macro": ("low", "*=0x8000\nm(1)\n", {}),
    "undef-symbols": ("low", "*=0x8000\n.dw sym\n", {}),
    "undef-x": ("low", "*=0x8000\n.dw x + 1\n", {}),
    "undef-in-symbol-definition": ("low", "*=0x8000\nvalue = missing + 1\n.dw value\n", {}),
    "undef-macro-argument": ("low", "*=0x8000\n.macro um(q) {\n.dw q\n}\num(missing + pv)\n", {}),
    "no-table": ("low", "*=0x8000\n.text 'ab'\n", {}),
    "own-table": ("low", "*=0x8000\n.table 'p.tbl'\n.text 'ab'\nafter:\n.dl after\n", {"p.tbl": "01=a\n02=b\n"}),
    "own-incbin": ("low", "*=0x8000\n.incbin 'p.bin'\nafter:\n.dl after, p_bin, p_bin__size\n", {"p.bin": b"\x01\x02\x03"}),
    "own-include": ("low", "*=0x8000\n.include 'p.s'\nafter:\n.dl after\n", {"p.s": "lda.w #pv\n"}),
    "own-ips": ("low", "*=0x8000\n.db pv\n.include_ips 'p.ips', 0\n", {"p.ips": b"PATCH\x00\x01\x00\x00\x02xyEOF"}),
    "own-ips-delta": ("low", "*=0x8000\n.db pv\n.include_ips 'p.ips', 0 - 0x20\n", {"p.ips": b"PATCH\x00\x01\x00\x00\x02xyEOF"}),
    "high": ("high", "*=0xC10000\nh:\n.dw pv\n.dl h\n", {}),
    # positions in work RAM under HiROM (refused / relocated): the answer may not depend on which banks were looked up before
    "high-ram-refused": ("high", "*=0x7E2000\n.db pv\n", {}),
    "high-ram-reloc": ("high", "*=0xC08000\n@=0x7E2000\nr:\n.dl r\n.db pv\n*=0x7F0000\n", {}),
    "lorom-offset": ("low", "*=0x018000\n.db pv\n*=0x001000\n.db 2\n", {}),
    "own-map": ("low", ".map identifier=1 bank_range=0x10, 0x1f addr_range=0x8000, 0xffff mask=0x8000\n*=0x108000\nq:\n.dl q\n", {}),
    "scopes": ("low", "*=0x8000\n.scope ns {\nl:\n.db pv\n}\n.for i := 0, 2 {\nl:\n.db i\n}\n{\nl:\n.dl l\n}\n.dl ns.l\n", {}),
    "error-location": ("low", "*=0x8000\n; comment\n/* a\nb */\n.dw 1, nosuch\n", {}),
}


def _le3(x):
    return [x & 0xFF, (x >> 8) & 0xFF, (x >> 16) & 0xFF]


# known outputs of the file-dependent probes: [(offset, [bytes; "pv.lo"/"pv.hi" for the symbolic value])]
EXPECT = {
    "own-incbin": [(0, [1, 2, 3] + _le3(0x8003) + _le3(0x8000) + _le3(3))],
    "own-include": [(0, [0xA9, "pv.lo", "pv.hi"] + _le3(0x8003))],
    "own-ips": [(0x100, [ord("x"), ord("y")]), (0, ["pv.lo"])],
    "own-table": [(0, [1, 2] + _le3(0x8002))],
    "own-ips-delta": [(0xE0, [ord("x"), ord("y")]), (0, ["pv.lo"])],
    "simple": [(0, [0xA9, "pv.lo", "pv.hi", 0xCA, 0xD0, 0xFD] + _le3(0x8000) + _le3(0x8003))],
    "high": [(0x10000, ["pv.lo", "pv.hi"] + _le3(0xC10000))],
    "own-map": [(0, _le3(0x108000))],
    "scopes": [(0, ["pv.lo", 0, 1] + _le3(0x8003) + _le3(0x8000))],
}


def jobs(tier, seed):
    out = []
    items = list(HISTORY)
    hs = [(h,) for h in items]
    if tier == "thorough":
        hs += list(itertools.product(items, repeat=2))
    for pn in PROBES:
        for h in hs:
            out.append({"id": f"{pn}/after/{'+'.join(h)}", "probe": pn, "history": list(h)})
    # history first, in a process that has never seen the probe: the result is compared with the
    # probe's known output (catches state keyed by file name / source text that a first run would prime)
    for pn in EXPECT:
        for h in items:
            out.append({"id": f"{pn}/history-first/{h}", "probe": pn, "history": [h], "order": "history-first"})
    # one Program object used for two assemblies: the second one, placed anywhere (`*= q`, q symbolic), comes out as from a fresh object
    out.append({"id": "same-program-object/second-assembly-anywhere", "probe": "simple", "history": [], "order": "reuse"})
    rnd = random.Random(seed * 131 + 5)
    for k in range(120 if tier == "quick" else 300):
        n = rnd.choice([2, 3]) if tier == "quick" else 3
        h = [rnd.choice(items) for _ in range(n)]
        pn = rnd.choice(list(PROBES))
        out.append({"id": f"{pn}/after/rand{k:03d}-{'+'.join(h)}", "probe": pn, "history": h})
    return out


def _program(rom, syms):
    from a816.cpu.cpu_65c816 import RomType
    from a816.program import Program

    p = Program()
    p.resolver.rom_type = {"low": RomType.low_rom, "high": RomType.high_rom}[rom]
    for k, v in syms.items():
        p.resolver.current_scope.add_symbol(k, v)
    return p


def assemble_one(rom, src, files, syms, cx, fname="m.s"):
    p = _program(rom, syms)
    w = RecWriter()
    with virtual_files(cx, files):
        try:
            err = p.assemble_string_with_emitter(src, fname, w)
        except Exception as e:  # noqa: BLE001
            return ("raise", type(e).__name__, _text(e), w.blocks)
    if err is not None:
        return ("error", err, None, w.blocks)
    return ("ok", w.blocks, p.resolver.get_all_labels())


def _text(e):
    try:
        return str(e)
    except TypeError:
        return type(e).__str__(e)


def run_history_item(name, syms, cx):
    import argparse
    import types
    from pathlib import Path

    rom, src, files = HISTORY[name][:3]
    if src is not None:
        assemble_one(rom, src, files, syms, cx, *HISTORY[name][3:])
        return
    text = "*=0x8000\nfl:\n.dw 0x1234\n.dl fl\nlda.w nosuchname\n"
    with virtual_files(cx, {"hist.s": text}, outputs=["hist.out"]):
        if name == "file-api":
            for call in (lambda p: p.assemble_as_patch("hist.s", Path("hist.out"), "high", True), lambda p: p.assemble("hist.s", Path("hist.out")),
                         lambda p: p.assemble_as_patch("hist.s", Path("hist.out"), "low2", False)):
                try:
                    call(_program("low", {}))
                except Exception:  # noqa: BLE001  (a failing history item is part of the menu)
                    pass
        else:
            import a816.cli as cli

            ns = types.SimpleNamespace(verbose=True, output_file=Path("hist.out"), input_file=Path("hist.s"), format="ips", mapping="high",
                                       copier_header=True, dump_symbols=False, defines=["sym=5", "pv=7"])
            orig_parse, orig_basic = argparse.ArgumentParser.parse_args, logging.basicConfig
            argparse.ArgumentParser.parse_args = lambda self, *a, **k: ns
            logging.basicConfig = lambda *a, **k: None
            try:
                try:
                    cli.cli_main()
                except SystemExit:
                    pass
                except Exception:  # noqa: BLE001
                    pass
            finally:
                argparse.ArgumentParser.parse_args, logging.basicConfig = orig_parse, orig_basic


def run(spec, cx):
    pv = cx.int("pv", 0, 0xFFFF)
    hv = cx.int("hv", 0, 0xFFFF)
    rom, src, files = PROBES[spec["probe"]]
    # files that a history item left in other directories are still there when the probe is assembled
    left = {k: v for h in spec["history"] for k, v in HISTORY[h][2].items() if "/" in k}
    if left:
        files = dict(left, **files)
    if spec.get("order") == "reuse":
        from oracles import layout as L

        q = cx.int("q", 0, 0xFFFFFF)
        g = L.GEOMS["low"]
        cx.assume(z3.And(L.in_window(g, cx.t("q")), L.offset(g, cx.t("q")) + 16 < L.run_size(g, cx.t("q"))))
        p = _program("low", {"pv": pv, "q": q})
        w1, w2 = RecWriter(), RecWriter()
        try:
            e1 = p.assemble_string_with_emitter("*=0x8000\nr1:\n.db 1, 2, 3\n", "first.s", w1)
            e2 = p.assemble_string_with_emitter("*= q\nr2:\n.dw pv\n.dl r2\n", "second.s", w2)
        except Exception as e:  # noqa: BLE001
            return (("raise", type(e).__name__, _text(e), []),)
        return (("ok", w2.blocks, []) if e1 is None and e2 is None else ("error", e2 if e2 is not None else e1, None, w2.blocks),)
    if spec.get("order") == "history-first":
        for h in spec["history"]:
            run_history_item(h, {"hv": hv}, cx)
        return (assemble_one(rom, src, files, {"pv": pv}, cx),)
    before = assemble_one(rom, src, files, {"pv": pv}, cx)
    for h in spec["history"]:
        run_history_item(h, {"hv": hv}, cx)
    after = assemble_one(rom, src, files, {"pv": pv}, cx)
    again = assemble_one(rom, src, files, {"pv": pv}, cx)
    return (before, after, again)


def _same(a, b):
    """z3 Bool: two probe results are identical."""
    from symx.values import SStr

    if a[0] != b[0]:
        return z3.BoolVal(False)
    conds = []

    def same_blocks(x, y):
        if len(x) != len(y):
            return [z3.BoolVal(False)]
        out = []
        for (a1, d1), (a2, d2) in zip(x, y):
            b1, b2 = blist(d1), blist(d2)
            out.append(z3.BoolVal(len(b1) == len(b2)))
            out.append(bv(a1) == bv(a2))
            out += [p == q for p, q in zip(b1, b2)]
        return out

    def same_text(x, y):
        if x is None or y is None:
            return z3.BoolVal(x is None and y is None)
        if isinstance(x, str) and isinstance(y, str):
            return z3.BoolVal(x == y)
        return SStr.of(x).eq_term(y) if not isinstance(x, str) else SStr.of(y).eq_term(x)

    if a[0] == "ok":
        conds += same_blocks(a[1], b[1])
        conds.append(z3.BoolVal(len(a[2]) == len(b[2])))
        for (n1, v1), (n2, v2) in zip(a[2], b[2]):
            conds.append(z3.BoolVal(n1 == n2))
            conds.append(bv(v1) == bv(v2))
    elif a[0] == "error":
        conds.append(same_text(a[1], b[1]))
        conds += same_blocks(a[3], b[3])
    else:
        conds.append(z3.BoolVal(a[1] == b[1]))
        conds.append(same_text(a[2], b[2]))
        conds += same_blocks(a[3], b[3])
    return z3.And(*conds) if conds else z3.BoolVal(True)


def check(spec, cx, out):
    if spec.get("order") == "reuse":
        from oracles import layout as L

        r = out[0]
        if r[0] != "ok" or len(r[1]) != 1:
            return [("second-assembly-on-the-same-object", z3.BoolVal(False))]
        a, d = r[1][0]
        bs = blist(d)
        q, pv = cx.t("q"), cx.t("pv")
        want = [pv & 0xFF, (pv >> 8) & 0xFF, q & 0xFF, (q >> 8) & 0xFF, (q >> 16) & 0xFF]
        if len(bs) != len(want):
            return [("second-assembly-on-the-same-object", z3.BoolVal(False))]
        return [("second-assembly-on-the-same-object", z3.And(bv(a) == L.offset(L.GEOMS["low"], q), *[x == y for x, y in zip(bs, want)]))]
    if spec.get("order") == "history-first":
        r = out[0]
        exp = EXPECT[spec["probe"]]
        if r[0] != "ok" or len(r[1]) != len(exp):
            return [("probe-output-after-history", z3.BoolVal(False))]
        pv = cx.t("pv")
        conds = []
        for (a, d), (ea, ed) in zip(r[1], exp):
            bs = blist(d)
            if len(bs) != len(ed):
                return [("probe-output-after-history", z3.BoolVal(False))]
            conds.append(bv(a) == ea)
            for x, y in zip(bs, ed):
                conds.append(x == (pv & 0xFF if y == "pv.lo" else (pv >> 8) & 0xFF if y == "pv.hi" else y))
        return [("probe-output-after-history", z3.And(*conds))]
    before, after, again = out
    return [
        ("probe-unchanged-by-history", _same(before, after)),
        ("probe-repeatable", _same(after, again)),
    ]
