"""C20 -- legacy address conversions agree with the assembler's mapping.

Symbolic: ROM offset o in [0,2^22), base/pointer, pointer bytes.  The real rom_to_snes /
snes_to_rom / script.formulas functions are executed on shadow ints; `int(a / c)` is modelled
as truncating exact division, justified by a floating-point lemma discharged in QF_BVFP at every
run for each divisor found in the tree (preflight)."""
import ast
import os
import time

import z3

from harness.common import B, W, eq_bytes, le_bytes
from symx import bv

PROPERTY = "C20"

META = {
    "bounds": "ROM offsets 0 <= o < 2^22 (4 MiB) for the three modes; (base, p) with base, p >= 0 and base + p < 2^22; 16-bit pointer bytes all values (records of 2, 3 and 4 bytes, all byte values), base in [0,2^24)",
    "outside": ["offsets >= 4 MiB", "negative inputs", "snes_to_rom on addresses that are not images of rom_to_snes"],
    "oracle": "textbook LoROM (bank = o >> 15 [+0x80], addr = 0x8000 | (o & 0x7FFF)) and HiROM (0xC00000 + o) formulas; Bus.get_address(x).physical of the assembler's own built-in buses",
    "stubs": ["warnings.warn executes natively (DeprecationWarning filtered)", "int(a / c) modelled as truncating exact division + QF_BVFP lemma per divisor (preflight)"],
    "assumptions": ["IEEE-754 binary64 semantics of CPython float division as encoded by z3's FP theory"],
}

OPTS = {"quick": {"deadline_s": 120}, "thorough": {"deadline_s": 300}}


def jobs(tier, seed):
    out = []
    for mode in ("low_rom", "low_rom_2", "high_rom"):
        out.append({"id": f"rom_to_snes/{mode}", "kind": "r2s", "mode": mode})
        out.append({"id": f"roundtrip/{mode}", "kind": "rt", "mode": mode})
    out.append({"id": "snes_to_rom/direct", "kind": "s2r"})
    out.append({"id": "long_low_rom_pointer", "kind": "llrp"})
    out.append({"id": "base_relative_16bits", "kind": "br16"})
    # records wider than the pointer (Script.read_pointers(..., length=3|4, formula)): the 16-bit value is the first two bytes
    out.append({"id": "base_relative_16bits/3-byte-record", "kind": "br16", "width": 3})
    out.append({"id": "base_relative_16bits/4-byte-record", "kind": "br16", "width": 4})
    out.append({"id": "pointer-converters-are-independent", "kind": "llrp2"})
    return out


def run(spec, cx):
    from a816.cpu.cpu_65c816 import RomType, rom_to_snes, snes_to_rom
    from a816.symbols import high_rom_bus, low_rom_bus

    kind = spec["kind"]
    if kind in ("r2s", "rt"):
        mode = getattr(RomType, spec["mode"])
        o = cx.int("o", 0, 0x3FFFFF)
        s = rom_to_snes(o, mode)
        if kind == "rt":
            return ("rt", s, snes_to_rom(s))
        bus = high_rom_bus if spec["mode"] == "high_rom" else low_rom_bus
        try:
            phys = bus.get_address(s).physical
            mapped = True
        except KeyError:
            phys, mapped = None, False
        return ("r2s", s, mapped, phys)
    if kind == "s2r":
        s = cx.int("s", 0, 0xFFFFFF)
        return ("s2r", snes_to_rom(s))
    if kind == "llrp":
        from script.formulas import long_low_rom_pointer

        base = cx.int("base", 0, 0x3FFFFF)
        p = cx.int("p", 0, 0x3FFFFF)
        cx.assume(cx.t("base") + cx.t("p") <= 0x3FFFFF)
        return ("llrp", long_low_rom_pointer(base)(p))
    if kind == "llrp2":
        # two converters with different bases alive in one process, used alternately on the same
        # and on different pointers: each result depends only on its own base and pointer
        from script.formulas import base_relative_16bits_pointer_formula, long_low_rom_pointer

        b1, b2 = cx.int("b1", 0, 0x1FFFFF), cx.int("b2", 0, 0x1FFFFF)
        p, q = cx.int("p", 0, 0xFFFF), cx.int("q", 0, 0xFFFF)
        cx.assume(cx.t("b1") != cx.t("b2"))
        f1, f2 = long_low_rom_pointer(b1), long_low_rom_pointer(b2)
        g1, g2 = base_relative_16bits_pointer_formula(b1), base_relative_16bits_pointer_formula(b2)
        v = bytes([0x34, 0x12])
        return ("llrp2", f1(p), f2(p), f1(q), f2(q), f1(p), g1(v), g2(v), g1(v))
    if kind == "br16":
        from script.formulas import base_relative_16bits_pointer_formula

        base = cx.int("base", 0, 0xFFFFFF)
        vs = [cx.int(f"v{i}", 0, 255) for i in range(spec.get("width", 2))]
        if cx.symbolic:
            from symx import mkbytes

            v = mkbytes(vs)
        else:
            v = bytes(vs)
        try:
            return ("br16", base_relative_16bits_pointer_formula(base)(v))
        except (ValueError, IndexError, TypeError) as e:
            return ("br16-rejected", type(e).__name__)
    raise ValueError(kind)


def textbook(o, mode):
    if mode == "high_rom":
        return o + 0xC00000
    bank = o >> 15
    if mode == "low_rom_2":
        bank = bank + 0x80
    return (bank << 16) | 0x8000 | (o & 0x7FFF)


def check(spec, cx, out):
    kind = out[0]
    res = []
    if kind == "r2s":
        o = cx.t("o")
        s = bv(out[1])
        res.append(("textbook-address", s == textbook(o, spec["mode"])))
        if out[2] and out[3] is None:
            # the assembler's bus maps that bank as RAM: only LoROM (bank from 0x00) banks 7E/7F,
            # i.e. offsets beyond the bus's ROM range
            bank = (s >> 16) & 0xFF
            res.append(("ram-only-beyond-rom-range", z3.And(z3.BoolVal(spec["mode"] == "low_rom"), bank >= 0x7E, bank <= 0x7F)))
        elif out[2]:
            res.append(("bus-offset-agrees", bv(out[3]) == o))
        else:
            # the assembler's bus does not map that bank at all (LoROM offsets beyond its ROM ranges)
            bank = (s >> 16) & 0xFF
            if spec["mode"] == "low_rom":
                res.append(("unmapped-only-beyond-rom-range", z3.And(bank >= 0x70, bank <= 0x7D)))
            elif spec["mode"] == "low_rom_2":
                res.append(("unmapped-only-beyond-rom-range", bank >= 0xD0))
            else:
                res.append(("unmapped-only-beyond-rom-range", z3.BoolVal(False)))
        return res
    if kind == "rt":
        o = cx.t("o")
        pre = o < 0x200000 if spec["mode"] == "low_rom_2" else z3.BoolVal(True)
        res.append(("snes_to_rom-inverts", z3.Implies(pre, bv(out[2]) == o)))
        return res
    if kind == "s2r":
        s = cx.t("s")
        bank, r = (s >> 16) & 0xFF, bv(out[1])
        inwin = (s & 0xFFFF) >= 0x8000
        res.append(("lorom-window", z3.Implies(z3.And(inwin, bank <= 0x6F), r == bank * 0x8000 + (s & 0x7FFF))))
        res.append(("lorom2-window", z3.Implies(z3.And(inwin, bank >= 0x80, bank <= 0xBF), r == (bank - 0x80) * 0x8000 + (s & 0x7FFF))))
        res.append(("hirom", z3.Implies(bank >= 0xC0, r == s - 0xC00000)))
        return res
    if kind == "llrp":
        tgt = cx.t("base") + cx.t("p")
        res.append(("pointer-bytes", eq_bytes(out[1], le_bytes(textbook(tgt, "low_rom"), 3))))
        return res
    if kind == "llrp2":
        b1, b2, p, q = cx.t("b1"), cx.t("b2"), cx.t("p"), cx.t("q")
        want = [(b1, p), (b2, p), (b1, q), (b2, q), (b1, p)]
        conds = [eq_bytes(out[1 + i], le_bytes(textbook(b + x, "low_rom"), 3)) for i, (b, x) in enumerate(want)]
        conds += [bv(out[6]) == b1 + 0x1234, bv(out[7]) == b2 + 0x1234, bv(out[8]) == b1 + 0x1234]
        res.append(("each-converter-depends-only-on-its-own-base", z3.And(*conds)))
        return res
    if kind == "br16-rejected":
        # only a record that is not exactly a 16-bit pointer may be refused
        return [("two-byte-record-decoded", z3.BoolVal(spec.get("width", 2) != 2))]
    if kind == "br16":
        res.append(("decode-le16-plus-base", bv(out[1]) == cx.t("v0") + (cx.t("v1") << 8) + cx.t("base")))
        return res
    raise ValueError(kind)


# ------------------------------------------------------------------ floating point lemma
def _divisors():
    """Constant divisors c of every `int(x / c)` in the tree's legacy-conversion modules."""
    repo = os.environ.get("A816_REPO", "/repo")
    found, bad = [], []
    for rel in ("a816/cpu/cpu_65c816.py", "script/formulas.py"):
        path = os.path.join(repo, rel)
        tree = ast.parse(open(path, encoding="utf-8").read(), path)
        for n in ast.walk(tree):
            if isinstance(n, ast.Call) and isinstance(n.func, ast.Name) and n.func.id == "int" and n.args:
                a0 = n.args[0]
                if isinstance(a0, ast.BinOp) and isinstance(a0.op, ast.Div):
                    if isinstance(a0.right, ast.Constant) and isinstance(a0.right.value, int) and a0.right.value > 0:
                        found.append((rel, n.lineno, a0.right.value))
                    else:
                        bad.append(f"{rel}:{n.lineno}: int(x / <non-constant>)")
    return found, bad


def preflight(tier):
    found, bad = _divisors()
    info = {"lemmas": []}
    res = {"inconclusive": list(bad), "violations": [], "info": info}
    for c in sorted({c for _, _, c in found}):
        t0 = time.time()
        a = z3.BitVec("a", 32)
        x = z3.fpToFP(z3.RNE(), a, z3.Float64()) if False else z3.fpUnsignedToFP(z3.RNE(), a, z3.Float64())
        q = z3.fpDiv(z3.RNE(), x, z3.FPVal(float(c), z3.Float64()))
        r = z3.fpToSBV(z3.RTZ(), q, z3.BitVecSort(64))
        s = z3.Solver()
        s.set("timeout", 120000)
        s.add(z3.ULT(a, 1 << 23), r != z3.ZeroExt(32, z3.UDiv(a, z3.BitVecVal(c, 32))))
        v = s.check()
        info["lemmas"].append({"divisor": c, "claim": "forall 0 <= a < 2^23: int(float(a) / %d) == a // %d" % (c, c), "result": str(v), "solver_s": round(time.time() - t0, 2)})
        if v == z3.sat:
            res["inconclusive"].append(f"float lemma fails for divisor {c}: a={s.model()[a]}")
        elif v != z3.unsat:
            res["inconclusive"].append(f"float lemma for divisor {c}: solver {v}")
    info["int_truediv_sites"] = [f"{r}:{l} /{c}" for r, l, c in found]
    return res
