"""Shared harness helpers: recording writer, assembling with injected symbols."""
import z3

from symx import bv

W = 64


class RecWriter:
    """Recording Writer: the (block, address) calls are the observation point of most checks."""

    def __init__(self):
        self.blocks = []

    def begin(self):
        pass

    def write_block_header(self, block, block_address):
        pass

    def write_block(self, block, block_address):
        self.blocks.append((block_address, block))

    def end(self):
        pass


def new_program(rom="low", syms=None, dump_symbols=False):
    from a816.cpu.cpu_65c816 import RomType
    from a816.program import Program

    p = Program(dump_symbols=True) if dump_symbols else Program()
    p.resolver.rom_type = {"low": RomType.low_rom, "low2": RomType.low_rom_2, "high": RomType.high_rom}[rom]
    for k, v in (syms or {}).items():
        p.resolver.current_scope.add_symbol(k, v)
    return p


def assemble(src, syms=None, rom="low", filename="m.s", dump_symbols=False):
    """Real Program.assemble_string_with_emitter with a recording writer.

    Returns ("ok", blocks, program) | ("error", message, program) | ("raise", exception, program)."""
    p = new_program(rom, syms, dump_symbols)
    w = RecWriter()
    try:
        err = p.assemble_string_with_emitter(src, filename, w)
    except Exception as e:  # noqa: BLE001  (engine exceptions are BaseException and pass through)
        return ("raise", e, p)
    if err is not None:
        return ("error", err, p)
    return ("ok", w.blocks, p)


def blist(block):
    """list of 64-bit z3 terms of a bytes / SBytes value."""
    return [bv(b) for b in block]


def le_bytes(term, n):
    """expected little-endian bytes of a 64-bit term truncated to n bytes."""
    return [(term >> (8 * k)) & 0xFF for k in range(n)]


def eq_bytes(block, expected):
    bs = blist(block)
    if len(bs) != len(expected):
        return z3.BoolVal(False)
    return z3.And(*[a == b for a, b in zip(bs, expected)]) if bs else z3.BoolVal(True)


def B(x):
    return z3.BitVecVal(x, W)


def lorom_is_rom(a):
    bank = (a >> 16) & 0xFF
    return z3.And(a >= 0, a <= 0xFFFFFF, z3.Or(bank <= 0x6F, z3.And(bank >= 0x80, bank <= 0xCF)))


def lorom_offset(a):
    """Textbook LoROM: file offset of logical ROM address a (any offset in the bank mirrors the window)."""
    bank = (a >> 16) & 0x7F
    return bank * 0x8000 + (a & 0x7FFF)


def hirom_is_rom(a):
    bank = (a >> 16) & 0xFF
    return z3.And(a >= 0, a <= 0xFFFFFF, z3.Or(z3.And(bank >= 0x40, bank <= 0x7D), bank >= 0xC0))


def hirom_offset(a):
    bank = (a >> 16) & 0xFF
    first = z3.If(bank >= 0xC0, B(0xC0), B(0x40))
    return (bank - first) * 0x10000 + (a & 0xFFFF)


def is_ram(a):
    bank = (a >> 16) & 0xFF
    return z3.And(a >= 0, a <= 0xFFFFFF, bank >= 0x7E, bank <= 0x7F)


def advance(rom, a, n):
    """Textbook address advance: logical address whose file offset is n larger than that of the
    in-window ROM address a (same primary/mirror range, wrapping to the next bank's window start)."""
    bank = (a >> 16) & 0xFF
    if rom == "low":
        first = z3.If(bank >= 0x80, B(0x80), B(0))
        off = (bank - first) * 0x8000 + (a & 0x7FFF) + n
        return ((first + z3.UDiv(off, B(0x8000))) << 16) | (0x8000 + z3.URem(off, B(0x8000)))
    first = z3.If(bank >= 0xC0, B(0xC0), B(0x40))
    off = (bank - first) * 0x10000 + (a & 0xFFFF) + n
    return ((first + z3.UDiv(off, B(0x10000))) << 16) | z3.URem(off, B(0x10000))


def rom_range_end(rom, a):
    """Exclusive end (as file offset relative to the range start) of the ROM bank run containing a."""
    bank = (a >> 16) & 0xFF
    if rom == "low":
        return z3.If(bank >= 0x80, B(0x50 * 0x8000), B(0x70 * 0x8000))
    return z3.If(bank >= 0xC0, B(0x40 * 0x10000), B(0x3E * 0x10000))


def in_rom_window(rom, a):
    if rom == "low":
        return z3.And(lorom_is_rom(a), (a & 0xFFFF) >= 0x8000)
    return hirom_is_rom(a)


def rom_offset(rom, a):
    return lorom_offset(a) if rom == "low" else hirom_offset(a)


def segs_of(block):
    """Flatten a written block (bytes / SBytes / SBlob / SRope) into segments:
    ('b', [64-bit terms]) | ('blob', name, start_term, len_term)."""
    from symx.values import SBlob, SBytes, SRope

    out = []

    def push(x):
        if isinstance(x, (bytes, bytearray)):
            if x:
                out.append(("b", [B(i) for i in x]))
        elif isinstance(x, SBytes):
            if x.b:
                out.append(("b", [bv(i) for i in x.b]))
        elif isinstance(x, SBlob):
            out.append(("blob", x.name, bv(x.start), bv(x.length)))
        elif isinstance(x, SRope):
            for s in x.segs:
                push(s)
        else:
            raise TypeError(type(x))

    push(block)
    merged = []
    for s in out:
        if merged and s[0] == "b" and merged[-1][0] == "b":
            merged[-1] = ("b", merged[-1][1] + s[1])
        else:
            merged.append(s)
    return merged


_SCRATCH = []


def _scratch_dir():
    import atexit
    import shutil
    import tempfile

    if not _SCRATCH:
        d = tempfile.mkdtemp(prefix="a816verif-")
        _SCRATCH.append(d)
        atexit.register(shutil.rmtree, d, True)
    return _SCRATCH[0]


class virtual_files:
    """Files visible to the code under test under relative names: the symx virtual file system in
    symbolic mode, real files in a scratch directory (cwd) in concrete mode.  `outputs` names
    files the code will write (symbolic mode: recorded write/seek operations)."""

    def __init__(self, cx, files, outputs=()):
        self.cx, self.files, self.outputs = cx, files, list(outputs)
        self.tmp = None
        self.out = {}

    def __enter__(self):
        if self.cx.symbolic:
            from symx import shims

            for k, v in self.files.items():
                shims.VFS[k] = v
            for k in self.outputs:
                shims.VFS_OUT[k] = None
            self._patch_existence(shims)
        else:
            import os

            # one scratch directory per process: a file that a later assembly provides again with the same bytes is the
            # SAME file (same path, same mtime), as it is for a user who assembles twice; other files are removed
            self.old = os.getcwd()
            self.tmp = _scratch_dir()
            os.chdir(self.tmp)
            wanted = {os.path.normpath(k): (v.encode("utf-8") if isinstance(v, str) else bytes(v)) for k, v in self.files.items()}
            for root, _dirs, names in os.walk(".", topdown=False):
                for nm in names:
                    rel = os.path.normpath(os.path.join(root, nm))
                    if rel not in wanted:
                        os.remove(rel)
            for k, data in wanted.items():
                d = os.path.dirname(k)
                if d:
                    os.makedirs(d, exist_ok=True)
                if os.path.exists(k):
                    with open(k, "rb") as f:
                        if f.read() == data:
                            continue
                with open(k, "wb") as f:
                    f.write(data)
        return self

    def _patch_existence(self, shims):
        """os.path.exists / isfile, Path.exists / is_file and os.stat answer for the virtual files too
        (code that looks a file up before opening it must see the same files that open() sees)."""
        import os
        import pathlib

        def key(p):
            try:
                return os.path.normpath(os.fspath(p))
            except TypeError:
                return None

        def virtual(p):
            k = key(p)
            return k is not None and (k in shims.VFS or any(os.path.normpath(x) == k for x in shims.VFS))

        saved = (os.path.exists, os.path.isfile, pathlib.Path.exists, pathlib.Path.is_file, os.stat)
        self._saved_existence = saved

        os.path.exists = lambda p: virtual(p) or saved[0](p)
        os.path.isfile = lambda p: virtual(p) or saved[1](p)
        pathlib.Path.exists = lambda self_, *a, **k: virtual(self_) or saved[2](self_, *a, **k)
        pathlib.Path.is_file = lambda self_, *a, **k: virtual(self_) or saved[3](self_, *a, **k)

        def stat(p, *a, **k):
            if virtual(p):
                v = shims.VFS.get(key(p))
                try:
                    n = len(v)
                except Exception:  # noqa: BLE001  (blob of symbolic length)
                    n = 0
                return os.stat_result((0o100644, 0, 0, 1, 0, 0, n, 0, 0, 0), {"st_atime_ns": 0, "st_mtime_ns": 0, "st_ctime_ns": 0})
            return saved[4](p, *a, **k)

        os.stat = stat

    def _unpatch_existence(self):
        import os
        import pathlib

        if getattr(self, "_saved_existence", None):
            os.path.exists, os.path.isfile, pathlib.Path.exists, pathlib.Path.is_file, os.stat = self._saved_existence
            self._saved_existence = None

    def written(self, name):
        """Content written to output `name`: list of ('write', data)/('seek', pos) ops (symbolic) or bytes."""
        if self.cx.symbolic:
            from symx import shims

            f = shims.VFS_OUT.get(name)
            return None if f is None else f.ops
        import os

        if not os.path.exists(name):
            return None
        with open(name, "rb") as f:
            return f.read()

    def __exit__(self, *a):
        if self.cx.symbolic:
            from symx import shims

            self._unpatch_existence()
            for k in self.files:
                shims.VFS.pop(k, None)
            self._ops = {k: shims.VFS_OUT.pop(k, None) for k in self.outputs}
        else:
            import os

            os.chdir(self.old)
        return False
