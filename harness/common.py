"""Shared harness helpers: recording writer, assembling with injected symbols."""
import z3

from symx import bv

W = 64


class RecWriter:
    """Recording Writer: the (block, address) calls are the observation point of most checks."""

    def __init__(self):
        self.blocks = []

    def begin(self):
        pass

    def write_block_header(self, block, block_address):
        pass

    def write_block(self, block, block_address):
        self.blocks.append((block_address, block))

    def end(self):
        pass


def new_program(rom="low", syms=None):
    from a816.cpu.cpu_65c816 import RomType
    from a816.program import Program

    p = Program()
    p.resolver.rom_type = {"low": RomType.low_rom, "high": RomType.high_rom}[rom]
    for k, v in (syms or {}).items():
        p.resolver.current_scope.add_symbol(k, v)
    return p


def assemble(src, syms=None, rom="low", filename="m.s"):
    """Real Program.assemble_string_with_emitter with a recording writer.

    Returns ("ok", blocks, program) | ("error", message, program) | ("raise", exception, program)."""
    p = new_program(rom, syms)
    w = RecWriter()
    try:
        err = p.assemble_string_with_emitter(src, filename, w)
    except Exception as e:  # noqa: BLE001  (engine exceptions are BaseException and pass through)
        return ("raise", e, p)
    if err is not None:
        return ("error", err, p)
    return ("ok", w.blocks, p)


def blist(block):
    """list of 64-bit z3 terms of a bytes / SBytes value."""
    return [bv(b) for b in block]


def le_bytes(term, n):
    """expected little-endian bytes of a 64-bit term truncated to n bytes."""
    return [(term >> (8 * k)) & 0xFF for k in range(n)]


def eq_bytes(block, expected):
    bs = blist(block)
    if len(bs) != len(expected):
        return z3.BoolVal(False)
    return z3.And(*[a == b for a, b in zip(bs, expected)]) if bs else z3.BoolVal(True)


def B(x):
    return z3.BitVecVal(x, W)


def lorom_is_rom(a):
    bank = (a >> 16) & 0xFF
    return z3.And(a >= 0, a <= 0xFFFFFF, z3.Or(bank <= 0x6F, z3.And(bank >= 0x80, bank <= 0xCF)))


def lorom_offset(a):
    """Textbook LoROM: file offset of logical ROM address a (any offset in the bank mirrors the window)."""
    bank = (a >> 16) & 0x7F
    return bank * 0x8000 + (a & 0x7FFF)


def hirom_is_rom(a):
    bank = (a >> 16) & 0xFF
    return z3.And(a >= 0, a <= 0xFFFFFF, z3.Or(z3.And(bank >= 0x40, bank <= 0x7D), bank >= 0xC0))


def hirom_offset(a):
    bank = (a >> 16) & 0xFF
    first = z3.If(bank >= 0xC0, B(0xC0), B(0x40))
    return (bank - first) * 0x10000 + (a & 0xFFFF)


def is_ram(a):
    bank = (a >> 16) & 0xFF
    return z3.And(a >= 0, a <= 0xFFFFFF, bank >= 0x7E, bank <= 0x7F)
