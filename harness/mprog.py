"""Programs with macros / conditionals / loops as a small AST, their rendering, and the mechanical
expansion ("written out by hand") used as the twin in C09 and C10.

stmt :=
  ("raw", text)                              any simple statement line (data, instruction, label, x = e)
  ("macrodef", name, [params], body)
  ("call", name, [arg])                      arg := ("expr", text) | ("code", body)
  ("splice", param)                          {{param}}
  ("if", cond_text, then_body, else_body|None)
  ("for", var, from_text, to_text, body)
  ("block", body) | ("scope", name, body)
  ("include", file_name, body)               .include 'file_name' (the file holds the rendered body; twin: body inline)
"""
import re


def render(stmts, ind="", files=None):
    """Source text; files (dict) collects the contents of the files named by include statements."""
    out = []
    for st in stmts:
        k = st[0]
        if k == "include":
            if files is not None:
                files[st[1]] = render(st[2], "", files) + "\n"
            out.append(f"{ind}.include '{st[1]}'")
        elif k == "raw":
            out += [ind + ln for ln in st[1].split("\n")]
        elif k == "macrodef":
            out.append(f"{ind}.macro {st[1]}({', '.join(st[2])}) {{")
            out.append(render(st[3], ind + "  ", files))
            out.append(f"{ind}}}")
        elif k == "call":
            args = []
            for a in st[2]:
                if a[0] == "expr":
                    args.append(a[1])
                else:
                    args.append("{\n" + render(a[1], ind + "    ", files) + f"\n{ind}  }}")
            out.append(f"{ind}{st[1]}({', '.join(args)})")
        elif k == "splice":
            out.append(f"{ind}{{{{{st[1]}}}}}")
        elif k == "if":
            out.append(f"{ind}.if {st[1]} {{")
            out.append(render(st[2], ind + "  ", files))
            if st[3] is not None:
                out.append(f"{ind}}} else {{")
                out.append(render(st[3], ind + "  ", files))
            out.append(f"{ind}}}")
        elif k == "for":
            out.append(f"{ind}.for {st[1]} := {st[2]}, {st[3]} {{")
            out.append(render(st[4], ind + "  ", files))
            out.append(f"{ind}}}")
        elif k == "block":
            out.append(f"{ind}{{")
            out.append(render(st[1], ind + "  ", files))
            out.append(f"{ind}}}")
        elif k == "scope":
            out.append(f"{ind}.scope {st[1]} {{")
            out.append(render(st[2], ind + "  ", files))
            out.append(f"{ind}}}")
        else:
            raise ValueError(st)
    return "\n".join(x for x in out if x.strip() != "")


class Undecidable(Exception):
    pass


def _const_eval(text, consts):
    """Value of an expression closed over known compile-time constants (ints), else Undecidable."""
    names = set(re.findall(r"(?<![0-9A-Za-z_])[A-Za-z_][A-Za-z_0-9.]*", text))
    env = {}
    for n in names:
        if n not in consts:
            raise Undecidable(n)
        env[n] = consts[n]
    if not re.fullmatch(r"[\sA-Za-z_0-9.+\-*&|<>()x]*", text):
        raise Undecidable(text)
    return int(eval(text, {"__builtins__": {}}, env))  # noqa: S307 (closed arithmetic over ints)


class Expander:
    """Writes macro applications, conditionals and loops out by hand.

    decide_if(cond_text, consts) -> bool and loop_bounds(from_text, to_text, consts) -> (a, b) are
    supplied by the harness for conditions / bounds that depend on symbolic holes."""

    def __init__(self, decide_if=None, loop_bounds=None, max_depth=12, early=()):
        # names whose value is known while the program is expanded (symbols injected by the harness,
        # and top-level `:=` definitions made from such names before their use; `=` definitions are resolved late): a macro argument built
        # only from them is bound eagerly (`:=`), as the assembler binds it
        self.early = set(early)
        self.macros = {}
        self.n = 0
        self.decide_if = decide_if
        self.loop_bounds = loop_bounds
        self.max_depth = max_depth

    def _all_early(self, text, consts):
        return all(n in self.early or n in consts for n in re.findall(r"(?<![0-9A-Za-z_])[A-Za-z_][A-Za-z_0-9.]*", text))

    def fresh(self):
        self.n += 1
        return f"tmp{self.n}_"

    @staticmethod
    def _subst(text, exprs):
        """Replace parameter names by the (parenthesised) argument text they are bound to."""
        if not exprs:
            return text
        return re.sub(r"[A-Za-z_][A-Za-z_0-9.]*", lambda m: exprs.get(m.group(0), m.group(0)), text)

    def expand(self, stmts, consts=None, code=None, depth=0, exprs=None):
        consts = dict(consts or {})
        code = dict(code or {})
        exprs = dict(exprs or {})
        if depth > self.max_depth:
            raise Undecidable("expansion too deep")
        out = []
        for st in stmts:
            k = st[0]
            if k == "raw":
                out.append(st)
                m = re.fullmatch(r"\s*([A-Za-z_][A-Za-z_0-9]*)\s*:=\s*(.+)", st[1])
                if m and depth == 0 and self.early and self._all_early(m.group(2), consts):
                    self.early.add(m.group(1))
                m = re.fullmatch(r"\s*([A-Za-z_][A-Za-z_0-9]*)\s*:=\s*(.+)", st[1])
                if m:
                    try:
                        consts[m.group(1)] = _const_eval(m.group(2), consts)
                        exprs.pop(m.group(1), None)
                    except Undecidable:
                        consts.pop(m.group(1), None)
                        exprs[m.group(1)] = "(" + self._subst(m.group(2), exprs) + ")"
            elif k == "macrodef":
                self.macros[st[1]] = (st[2], st[3])
            elif k == "call":
                if st[1] not in self.macros:
                    raise KeyError(st[1])
                params, body = self.macros[st[1]]
                if len(st[2]) < len(params):
                    raise IndexError("missing macro argument")
                inner_consts = dict(consts)
                inner_code = dict(code)
                inner_exprs = dict(exprs)
                pre, binds = [], []
                for p, a in zip(params, st[2]):
                    if a[0] == "expr":
                        try:
                            inner_consts[p] = _const_eval(a[1], consts)
                            # value known while the program is expanded: bound right away (`:=`), so that
                            # the body's own `:=` / `.if` / `.for` see it, as with a macro parameter
                            binds.append(("raw", f"{p} := {inner_consts[p]}"))
                        except Undecidable:
                            inner_consts.pop(p, None)
                            t = self.fresh()
                            if self.early and self._all_early(a[1], consts):
                                pre.append(("raw", f"{t} := {a[1]}"))
                                binds.append(("raw", f"{p} := {t}"))
                            else:
                                pre.append(("raw", f"{t} = {a[1]}"))
                                binds.append(("raw", f"{p} = {t}"))
                        inner_code.pop(p, None)
                        inner_exprs[p] = "(" + self._subst(a[1], exprs) + ")"
                    else:
                        inner_code[p] = self.expand(a[1], consts, code, depth + 1, exprs)
                        inner_consts.pop(p, None)
                        inner_exprs.pop(p, None)
                out += pre
                out.append(("block", binds + self.expand(body, inner_consts, inner_code, depth + 1, inner_exprs)))
            elif k == "splice":
                out += code[st[1]]
            elif k == "if":
                try:
                    c = _const_eval(st[1], consts) != 0
                except Undecidable:
                    if self.decide_if is None:
                        raise
                    c = self.decide_if(self._subst(st[1], exprs), consts)
                body = st[2] if c else st[3]
                if body:
                    out += self.expand(body, consts, code, depth + 1, exprs)
            elif k == "for":
                try:
                    a, b = _const_eval(st[2], consts), _const_eval(st[3], consts)
                except Undecidable:
                    if self.loop_bounds is None:
                        raise
                    a, b = self.loop_bounds(self._subst(st[2], exprs), self._subst(st[3], exprs), consts)
                for i in range(a, b):
                    c2 = dict(consts)
                    c2[st[1]] = i
                    e2 = dict(exprs)
                    e2.pop(st[1], None)
                    out.append(("block", [("raw", f"{st[1]} := {i}")] + self.expand(st[4], c2, code, depth + 1, e2)))
            elif k == "block":
                out.append(("block", self.expand(st[1], consts, code, depth + 1, exprs)))
            elif k == "scope":
                out.append(("scope", st[1], self.expand(st[2], consts, code, depth + 1, exprs)))
            elif k == "include":
                # the included text stands where the directive stands (macro definitions it makes stay known)
                out += self.expand(st[2], consts, code, depth + 1, exprs)
            else:
                raise ValueError(st)
        return out
