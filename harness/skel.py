"""Program skeletons: a tiny statement DSL, its rendering to a816 source and its walk by the
reference layout model (oracles/layout.py).

stmt :=
  ("db"|"dw"|"dl"|"ptr", sym)       data directive of one symbol value
  ("imm", sym)                      lda.w #sym      -> A9 lo hi
  ("stal", sym)                     sta.l sym       -> 8F b0 b1 b2
  ("abs", sym)                      ldx.w sym       -> AE lo hi
  ("nop",)                          nop             -> EA
  ("label", name)
  ("star", hole, kind) | ("at", hole, kind)          *= / @= with kind 'rom' | 'ram'
  ("block", body) | ("scope", name, body)
  ("macro", name, body) | ("apply", name)
  ("for", var, count, body) | ("if", cond, then_body, else_body|None)
  ("starx", hole, var, stride, kind)                 *= hole + var * stride      (var: enclosing loop variable)
  ("macrop", name, param, body) | ("applyp", name, hole)   macro with one parameter, applied to a position hole
  ("starp", param, addend, kind)                     *= param + addend           (inside a macrop body)
"""
import z3

from oracles.layout import B


def render(skel, indent=""):
    out = []
    for st in skel:
        k = st[0]
        if k in ("db", "dw", "dl"):
            out.append(f"{indent}.{k} {st[1]}")
        elif k == "ptr":
            out.append(f"{indent}.pointer {st[1]}")
        elif k == "imm":
            out.append(f"{indent}lda.w #{st[1]}")
        elif k == "stal":
            out.append(f"{indent}sta.l {st[1]}")
        elif k == "abs":
            out.append(f"{indent}ldx.w {st[1]}")
        elif k == "nop":
            out.append(f"{indent}nop")
        elif k == "ascii":
            out.append(f"{indent}.ascii '{st[1]}'")
        elif k == "incbin":
            out.append(f"{indent}.incbin '{st[1]}'")
        elif k == "raw":
            out.append(f"{indent}{st[1]}")
        elif k == "label":
            out.append(f"{indent}{st[1]}:")
        elif k == "star":
            out.append(f"{indent}*= {st[1]}")
        elif k == "at":
            out.append(f"{indent}@= {st[1]}")
        elif k == "starx":
            out.append(f"{indent}*= {st[1]} + {st[2]} * {st[3]:#x}")
        elif k == "starp":
            out.append(f"{indent}*= {st[1]} + {st[2]:#x}")
        elif k == "macrop":
            out.append(f"{indent}.macro {st[1]}({st[2]}) {{")
            out.append(render(st[3], indent + "  "))
            out.append(f"{indent}}}")
        elif k == "applyp":
            out.append(f"{indent}{st[1]}({st[2]})")
        elif k == "block":
            out.append(f"{indent}{{")
            out.append(render(st[1], indent + "  "))
            out.append(f"{indent}}}")
        elif k == "scope":
            out.append(f"{indent}.scope {st[1]} {{")
            out.append(render(st[2], indent + "  "))
            out.append(f"{indent}}}")
        elif k == "macro":
            out.append(f"{indent}.macro {st[1]}() {{")
            out.append(render(st[2], indent + "  "))
            out.append(f"{indent}}}")
        elif k == "apply":
            out.append(f"{indent}{st[1]}()")
        elif k == "for":
            out.append(f"{indent}.for {st[1]} := 0, {st[2]} {{")
            out.append(render(st[3], indent + "  "))
            out.append(f"{indent}}}")
        elif k == "if":
            out.append(f"{indent}.if {st[1]} {{")
            out.append(render(st[2], indent + "  "))
            if st[3] is not None:
                out.append(f"{indent}}} else {{")
                out.append(render(st[3], indent + "  "))
            out.append(f"{indent}}}")
        else:
            raise ValueError(st)
    return "\n".join(x for x in out if x != "")


def le(term, n):
    return [(term >> (8 * k)) & 0xFF for k in range(n)]


def walk(skel, lay, val, macros=None, on_label=None, env=None):
    """Drive the layout model over the skeleton.  val(name) -> z3 term of a symbol / hole."""
    macros = {} if macros is None else macros
    env = {} if env is None else env
    for st in skel:
        k = st[0]
        if k == "starx":
            lay.star(val(st[1]) + env[st[2]] * st[3], st[4])
            continue
        if k == "starp":
            lay.star(env[st[1]] + st[2], st[3])
            continue
        if k == "macrop":
            macros[st[1]] = (st[2], st[3])
            continue
        if k == "applyp":
            param, body = macros[st[1]]
            walk(body, lay, val, macros, on_label, dict(env, **{param: val(st[2])}))
            continue
        if k == "db":
            lay.emit(le(val(st[1]), 1))
        elif k == "dw":
            lay.emit(le(val(st[1]), 2))
        elif k in ("dl", "ptr"):
            lay.emit(le(val(st[1]), 3))
        elif k == "imm":
            lay.emit([B(0xA9)] + le(val(st[1]), 2))
        elif k == "stal":
            lay.emit([B(0x8F)] + le(val(st[1]), 3))
        elif k == "abs":
            lay.emit([B(0xAE)] + le(val(st[1]), 2))
        elif k == "nop":
            lay.emit([B(0xEA)])
        elif k == "ascii":
            lay.emit([B(ord(c)) for c in st[1]])
        elif k == "incbin":
            lay.emit([B(x) for x in st[2]])
        elif k == "raw":
            lay.emit([B(0)] * st[2])      # opaque statement of known size (bytes irrelevant for addresses)
        elif k == "label":
            if on_label:
                on_label(st[1], lay.A)
        elif k == "star":
            lay.star(val(st[1]), st[2])
        elif k == "at":
            lay.at(val(st[1]), st[2])
        elif k == "block":
            walk(st[1], lay, val, macros, on_label, env)
        elif k == "scope":
            walk(st[2], lay, val, macros, on_label, env)
        elif k == "macro":
            macros[st[1]] = st[2]
        elif k == "apply":
            walk(macros[st[1]], lay, val, macros, on_label, env)
        elif k == "for":
            for i in range(st[2]):
                walk(st[3], lay, val, macros, on_label, dict(env, **{st[1]: i}))
        elif k == "if":
            body = st[2] if st[1] else st[3]
            if body:
                walk(body, lay, val, macros, on_label, env)
        else:
            raise ValueError(st)


def holes(skel, acc=None):
    """(value symbols, position holes [(name, kind)]) used by the skeleton."""
    acc = acc if acc is not None else ([], [])
    for st in skel:
        k = st[0]
        if k in ("db", "dw", "dl", "ptr", "imm", "stal", "abs"):
            if st[1] not in acc[0] and not st[1][0].isdigit():
                acc[0].append(st[1])
        elif k in ("star", "at"):
            if (st[1], st[2]) not in acc[1]:
                acc[1].append((st[1], st[2]))
        elif k == "starx":
            if (st[1], st[4]) not in acc[1]:
                acc[1].append((st[1], st[4]))
        elif k == "applyp":
            if (st[2], "rom") not in acc[1]:
                acc[1].append((st[2], "rom"))
        elif k == "macrop":
            holes(st[3], acc)
        elif k == "block":
            holes(st[1], acc)
        elif k in ("scope", "macro"):
            holes(st[2], acc)
        elif k == "for":
            holes(st[3], acc)
        elif k == "if":
            holes(st[2], acc)
            if st[3]:
                holes(st[3], acc)
    return acc
