"""Independent lexical-environment model for a816 programs (written from property C08/C09/C10).

A program is a tree of items:
  ("def", name, kind, value)    kind: 'label' | 'eq' | 'assign' ; value: hole name (constants)
  ("ref", name)                 `.dl name`  (name may be qualified: 'ns.a')
  ("scope", kind, name, items, extra)
        kind: 'block' | 'named' | 'macro' | 'loop' | 'cond' (.if/else branch: NOT a scope; extra = 'then-taken' | 'then-untaken' | 'else-taken' | 'else-untaken')
        name: scope name (named) / macro name (macro) / loop variable (loop)
        extra: macro -> list of (param, argument text, argument value hole or None)
               loop  -> iteration count
Rules: a name refers to its definition in the innermost enclosing scope that defines it (position
inside the scope does not matter), falling back outward; a named scope additionally defines
`scopename.name` in its parent for each of its own labels and symbols."""

UNDEFINED = object()


class Scope:
    def __init__(self, parent, kind, name=None):
        self.parent, self.kind, self.name = parent, kind, name
        self.defs = {}       # name -> tag (anything the caller supplies)
        self.children = []

    def lookup(self, name, depth=0):
        s = self
        while s is not None:
            if name in s.defs:
                v = s.defs[name]
                if isinstance(v, tuple) and v and v[0] == "argname":
                    # macro parameter bound to a name: that name means what it means where the macro is applied
                    if depth > 16:
                        return UNDEFINED
                    return v[1].lookup(v[2], depth + 1)
                return v
            s = s.parent
        return UNDEFINED


def render(items, indent=""):
    out = []
    for it in items:
        k = it[0]
        if k == "def":
            _, name, kind, value = it
            if kind == "label":
                out.append(f"{indent}{name}:")
                out.append(f"{indent}.db 0xEE")
            elif kind == "eq":
                out.append(f"{indent}{name} = {value}")
            else:
                out.append(f"{indent}{name} := {value}")
        elif k == "ref":
            if len(it) > 2 and it[2] == "op":
                out.append(f"{indent}lda {it[1]}")      # inferred-width instruction operand
            else:
                out.append(f"{indent}.dl {it[1]}")
        elif k == "scope":
            _, kind, name, body, extra = it
            if kind == "block":
                out.append(f"{indent}{{")
                out.append(render(body, indent + "  "))
                out.append(f"{indent}}}")
            elif kind == "named":
                out.append(f"{indent}.scope {name} {{")
                out.append(render(body, indent + "  "))
                out.append(f"{indent}}}")
            elif kind == "macro":
                args = ", ".join(a for _, a, _ in extra)
                out.append(f"{indent}{name}({args})")
            elif kind == "loop":
                out.append(f"{indent}.for {name} := 0, {extra} {{")
                out.append(render(body, indent + "  "))
                out.append(f"{indent}}}")
            elif kind == "cond":
                # a conditional is not a scope: the selected branch belongs to the enclosing scope
                branch, taken = extra.split("-")
                if branch == "then":
                    out.append(f"{indent}.if {1 if taken == 'taken' else 0} {{")
                    out.append(render(body, indent + "  "))
                    out.append(f"{indent}}}")
                else:
                    out.append(f"{indent}.if {0 if taken == 'taken' else 1} {{")
                    out.append(f"{indent}}} else {{")
                    out.append(render(body, indent + "  "))
                    out.append(f"{indent}}}")
        else:
            raise ValueError(it)
    return "\n".join(x for x in out if x != "")


def macro_definitions(items, seen=None):
    """Source of the macro definitions for every macro scope in the tree (emitted at top)."""
    seen = {} if seen is None else seen
    for it in items:
        if it[0] == "scope":
            _, kind, name, body, extra = it
            if kind == "macro" and name not in seen:
                params = ", ".join(p for p, _, _ in extra)
                seen[name] = f".macro {name}({params}) {{\n{render(body, '  ')}\n}}"
            macro_definitions(body, seen)
    return seen


def evaluate(items, val, start_addr, advance, opwidth=2):
    """Walk the tree in emission order.

    val(hole) -> tag of a constant; labels get their address (start_addr, advance(addr, n)).
    Returns (events, labels): events = list of ('bytes', [..concrete ints..]) | ('ref', tag | UNDEFINED)
    in emission order; labels = list of (scope_kind_path, name, tag)."""
    root = Scope(None, "top")
    addr = [start_addr]
    events, labels, fixups = [], [], []

    def walk(items, scope, in_loop):
        for it in items:
            k = it[0]
            if k == "def":
                _, name, kind, value = it
                if kind == "label":
                    scope.defs[name] = addr[0]
                    labels.append((in_loop, scope, name, addr[0]))
                    events.append(("bytes", [0xEE]))
                    addr[0] = advance(addr[0], 1)
                else:
                    scope.defs[name] = val(value)
            elif k == "ref":
                isop = len(it) > 2 and it[2] == "op"
                ev = ["opref" if isop else "ref", scope, it[1]]
                events.append(ev)
                fixups.append(ev)
                addr[0] = advance(addr[0], 1 + opwidth if isop else 3)
            else:
                _, kind, name, body, extra = it
                if kind == "cond":
                    if extra.endswith("-taken"):
                        walk(body, scope, in_loop)
                    continue
                if kind == "loop":
                    for i in range(extra):
                        s = Scope(scope, kind, name)
                        s.defs[name] = ("const", i)
                        scope.children.append(s)
                        walk(body, s, True)
                    continue
                s = Scope(scope, kind, name)
                scope.children.append(s)
                if kind == "macro":
                    for p, _a, hole in extra:
                        if isinstance(hole, (tuple, list)) and hole[0] == "name":
                            s.defs[p] = ("argname", scope, hole[1])
                        else:
                            s.defs[p] = val(hole)
                walk(body, s, in_loop)
                if kind == "named":
                    for n, t in list(s.defs.items()):
                        scope.defs[f"{name}.{n}"] = t

    walk(items, root, False)
    out = []
    for ev in events:
        if ev[0] in ("ref", "opref"):
            out.append((ev[0], ev[1].lookup(ev[2])))
        else:
            out.append(tuple(ev))
    return out, labels
