"""Independent expression model: trees, rendering and evaluation over z3 terms.

Precedence as stated by property C06 (tightest first): unary - ~ ; * ; + - ; << >> ; & ; |
left to right within a level.  Written from the statement, not from the code."""
import itertools

import z3

W = 64
PREC = {"*": 5, "+": 4, "-": 4, "<<": 3, ">>": 3, "&": 2, "|": 1}
UNARY_PREC = 6
BINOPS = ["+", "-", "*", "<<", ">>", "&", "|"]
UNOPS = ["-", "~"]

# trees: ("leaf", name) | ("lit", text, value) | ("un", op, t) | ("bin", op, l, r)


def count_ops(t):
    if t[0] in ("leaf", "lit"):
        return 0
    if t[0] == "un":
        return 1 + count_ops(t[2])
    return 1 + count_ops(t[2]) + count_ops(t[3])


def shapes(n):
    """All tree shapes with exactly n operators; leaves are placeholders."""
    if n == 0:
        yield ("leaf", None)
        return
    for op in UNOPS:
        for t in shapes(n - 1):
            yield ("un", op, t)
    for op in BINOPS:
        for k in range(n):
            for l in shapes(k):
                for r in shapes(n - 1 - k):
                    if op in ("<<", ">>") and r[0] != "leaf":
                        continue  # shift amounts are the small leaf `s` (keeps values inside 64 bits)
                    yield ("bin", op, l, r)


def name_leaves(t, names=None, shift=False):
    """Assign leaf names a, b, c, d left to right; right operands of shifts get the small leaf s."""
    if names is None:
        names = iter("abcdefgh")
    if t[0] == "leaf":
        return ("leaf", "s" if shift else next(names))
    if t[0] == "un":
        return ("un", t[1], name_leaves(t[2], names))
    l = name_leaves(t[2], names)
    r = name_leaves(t[3], names, shift=t[1] in ("<<", ">>"))
    return ("bin", t[1], l, r)


def render(t, style="min"):
    """style: 'min' minimal parentheses no spaces; 'sp' minimal parentheses, spaces around
    binary operators; 'full' every sub-expression parenthesised; 'wide' extra spaces inside parens."""
    if t[0] == "leaf":
        return t[1]
    if t[0] == "lit":
        return t[1]
    sp = " " if style in ("sp", "wide") else ""
    if style == "full":
        if t[0] == "un":
            return f"{t[1]}({render(t[2], style)})" if t[2][0] not in ("leaf", "lit") else f"{t[1]}{render(t[2], style)}"
        return f"({render(t[2], style)}){t[1]}({render(t[3], style)})" if True else ""
    lp, rp = ("( ", " )") if style == "wide" else ("(", ")")
    if t[0] == "un":
        inner = render(t[2], style)
        if t[2][0] == "bin":
            inner = lp + inner + rp
        return t[1] + inner
    op = t[1]
    l, r = render(t[2], style), render(t[3], style)
    if t[2][0] == "bin" and PREC[t[2][1]] < PREC[op]:
        l = lp + l + rp
    # left-to-right within a level: a right child of the same level needs parentheses
    if t[3][0] == "bin" and PREC[t[3][1]] <= PREC[op]:
        r = lp + r + rp
    return f"{l}{sp}{op}{sp}{r}"


def uses(t, ops):
    if t[0] in ("leaf", "lit"):
        return False
    if t[1] in ops:
        return True
    return any(uses(c, ops) for c in t[2:])


def leaves(t):
    if t[0] == "leaf":
        return [t[1]]
    if t[0] == "lit":
        return []
    return list(itertools.chain.from_iterable(leaves(c) for c in t[2:]))


def _ite(decide, cond, a, b):
    if decide is not None:
        d = decide(cond)
        if d is True:
            return a
        if d is False:
            return b
    return z3.If(cond, a, b)


def evaluate(t, env, side, decide=None):
    """z3 term (64-bit) of the tree's value; `side` collects conditions under which the model's
    value is defined by the statement (magnitude of the operand of ~ below 2^32, shifts >= 0)."""
    if t[0] == "leaf":
        return env[t[1]]
    if t[0] == "lit":
        return z3.BitVecVal(t[2], W)
    if t[0] == "un":
        v = evaluate(t[2], env, side, decide)
        if t[1] == "-":
            return -v
        # "the smallest of 8, 16 or 32 bits that holds v": by magnitude (also for negative v)
        mag = z3.If(v < 0, -v, v)
        side.append(mag < (1 << 32))
        return _ite(decide, mag < 0x100, ~v & 0xFF, _ite(decide, mag < 0x10000, ~v & 0xFFFF, ~v & 0xFFFFFFFF))
    a, b = evaluate(t[2], env, side, decide), evaluate(t[3], env, side, decide)
    op = t[1]
    if op == "+":
        return a + b
    if op == "-":
        return a - b
    if op == "*":
        return a * b
    if op == "&":
        return a & b
    if op == "|":
        return a | b
    side.append(z3.And(b >= 0, b < 32))
    if op == "<<":
        return a << b
    return a >> b
