"""Independent IPS reader (written from the IPS format description, not from the code).

It walks a produced file the way a patcher does: 'PATCH', then records
(3-byte big-endian offset, 2-byte big-endian size, size==0 => run-length record: 2-byte count +
1 value byte), until the three bytes at a record position read 'EOF'.

The file is given as a list of *pieces* in write order: bytes, byte-term sequences (symx SBytes)
or blobs of symbolic length (symx SBlob).  Conditions that must hold for the reader to stay
aligned with the pieces (e.g. "this record's size field equals the length of the following data
piece") are collected as z3 terms; with concrete pieces they are constants."""
import z3

W = 64
EOF_MARK = 0x454F46


def _bv(x):
    from symx import bv

    return bv(x)


class Malformed(Exception):
    pass


class Stream:
    """Flattens pieces into atoms: runs of literal bytes (ints or byte terms) and blob segments."""

    def __init__(self, pieces):
        from symx.values import SBlob, SBytes, SRope

        self.atoms = []  # ("lit", sequence) | ("blob", blob)
        for p in pieces:
            self._push(p, SBlob, SBytes, SRope)
        self.i = 0  # atom index
        self.j = 0  # position inside a literal atom

    def _push(self, p, SBlob, SBytes, SRope):
        if isinstance(p, (bytes, bytearray)):
            if p:
                self.atoms.append(("lit", bytes(p)))
        elif isinstance(p, SBytes):
            if p.b:
                self.atoms.append(("lit", p.b))
        elif isinstance(p, SBlob):
            self.atoms.append(("blob", p))
        elif isinstance(p, SRope):
            for s in p.segs:
                self._push(s, SBlob, SBytes, SRope)
        else:
            raise Malformed(f"piece of type {type(p).__name__}")

    def at_end(self):
        return self.i >= len(self.atoms)

    def take_raw(self, n):
        """n literal bytes as a list of ints / SInt."""
        out = []
        while n > 0:
            if self.at_end() or self.atoms[self.i][0] != "lit":
                raise Malformed("expected literal byte")
            seq = self.atoms[self.i][1]
            chunk = seq[self.j: self.j + n]
            out += list(chunk)
            n -= len(chunk)
            self.j += len(chunk)
            if self.j >= len(seq):
                self.i += 1
                self.j = 0
        return out

    def take(self, n):
        return [_bv(x) for x in self.take_raw(n)]

    def take_data(self, size_term, conds):
        """Consume `size_term` data bytes.  Returns ('blob', blob) or ('bytes', [ints / SInt])."""
        if not self.at_end() and self.atoms[self.i][0] == "blob":
            blob = self.atoms[self.i][1]
            self.i += 1
            conds.append(size_term == _bv(blob.length))
            return ("blob", blob)
        sz = z3.simplify(size_term)
        if not z3.is_bv_value(sz):
            raise Malformed("symbolic size over literal bytes")
        return ("bytes", self.take_raw(sz.as_long()))


def be(terms):
    v = z3.BitVecVal(0, W)
    for t in terms:
        v = (v << 8) | t
    return v


def read_ips(pieces, max_records=64):
    """Returns (records, conds): records = [(offset_term, kind, payload, size_term)],
    kind 'data' (payload ('blob', b) | ('bytes', [..])) or 'rle' (payload (count_term, value_term)).
    conds are the alignment conditions collected on the way.  Raises Malformed."""
    st = Stream(pieces)
    conds = []
    head = st.take(5)
    conds += [h == c for h, c in zip(head, b"PATCH")]
    records = []
    while True:
        if len(records) > max_records:
            raise Malformed("too many records")
        off = be(st.take(3))
        offv = z3.simplify(off)
        if st.at_end():
            # last three bytes of the file must be the EOF marker
            conds.append(off == EOF_MARK)
            return records, conds
        # a patcher stops at 'EOF': every earlier record offset must differ from it
        conds.append(off != EOF_MARK)
        # (with concrete pieces the condition above is simply false; parsing goes on so that the
        #  remaining structure is still checked and assertion labels stay the same in both modes)
        size = be(st.take(2))
        sz = z3.simplify(size)
        if z3.is_bv_value(sz) and sz.as_long() == 0:
            cnt = be(st.take(2))
            val = st.take(1)[0]
            records.append((off, "rle", (cnt, val), size))
            continue
        conds.append(size != 0)
        payload = st.take_data(size, conds)
        records.append((off, "data", payload, size))
