"""65c816 opcode matrix, written by hand from the WDC W65C816S instruction set (not derived from
the code under test).  ISA[(mnemonic, shape, width)] = opcode byte.

shape = operand syntax as the assembler writes it:
  'imp'          no operand                         'imm'       #v
  'dir'          v                                  'dir,x' 'dir,y' 'dir,s'   v,x  v,y  v,s
  '(dir)'        (v)                                '(dir),y'   (v),y
  '[dir]'        [v]                                '[dir],y'   [v],y
  '(dir,x)'      (v,x)                              '(dir,s),y' (v,s),y
width = operand bytes (0 for implied; 1 = .b, 2 = .w, 3 = .l)."""

ISA = {}


def _add(mn, shape, width, op):
    key = (mn, shape, width)
    assert key not in ISA, key
    ISA[key] = op


# --- the eight "group one" accumulator instructions -------------------------------------------
for mn, base in (("ora", 0x00), ("and", 0x20), ("eor", 0x40), ("adc", 0x60), ("sta", 0x80), ("lda", 0xA0), ("cmp", 0xC0), ("sbc", 0xE0)):
    _add(mn, "(dir,x)", 1, base + 0x01)
    _add(mn, "dir,s", 1, base + 0x03)
    _add(mn, "dir", 1, base + 0x05)
    _add(mn, "[dir]", 1, base + 0x07)
    if mn != "sta":
        _add(mn, "imm", 1, base + 0x09)  # 8-bit accumulator
        _add(mn, "imm", 2, base + 0x09)  # 16-bit accumulator: same opcode
    _add(mn, "dir", 2, base + 0x0D)
    _add(mn, "dir", 3, base + 0x0F)
    _add(mn, "(dir),y", 1, base + 0x11)
    _add(mn, "(dir)", 1, base + 0x12)
    _add(mn, "(dir,s),y", 1, base + 0x13)
    _add(mn, "dir,x", 1, base + 0x15)
    _add(mn, "[dir],y", 1, base + 0x17)
    _add(mn, "dir,y", 2, base + 0x19)
    _add(mn, "dir,x", 2, base + 0x1D)
    _add(mn, "dir,x", 3, base + 0x1F)

# --- read-modify-write ---------------------------------------------------------------------------
for mn, base in (("asl", 0x00), ("rol", 0x20), ("lsr", 0x40), ("ror", 0x60)):
    _add(mn, "dir", 1, base + 0x06)
    _add(mn, "imp", 0, base + 0x0A)
    _add(mn, "dir", 2, base + 0x0E)
    _add(mn, "dir,x", 1, base + 0x16)
    _add(mn, "dir,x", 2, base + 0x1E)
for mn, acc, base in (("inc", 0x1A, 0xE0), ("dec", 0x3A, 0xC0)):
    _add(mn, "imp", 0, acc)
    _add(mn, "dir", 1, base + 0x06)
    _add(mn, "dir", 2, base + 0x0E)
    _add(mn, "dir,x", 1, base + 0x16)
    _add(mn, "dir,x", 2, base + 0x1E)

# --- bit tests -------------------------------------------------------------------------------------
_add("bit", "dir", 1, 0x24)
_add("bit", "dir", 2, 0x2C)
_add("bit", "dir,x", 1, 0x34)
_add("bit", "dir,x", 2, 0x3C)
_add("bit", "imm", 1, 0x89)
_add("bit", "imm", 2, 0x89)
_add("tsb", "dir", 1, 0x04)
_add("tsb", "dir", 2, 0x0C)
_add("trb", "dir", 1, 0x14)
_add("trb", "dir", 2, 0x1C)

# --- stores -----------------------------------------------------------------------------------------
_add("stz", "dir", 1, 0x64)
_add("stz", "dir,x", 1, 0x74)
_add("stz", "dir", 2, 0x9C)
_add("stz", "dir,x", 2, 0x9E)
_add("stx", "dir", 1, 0x86)
_add("stx", "dir", 2, 0x8E)
_add("stx", "dir,y", 1, 0x96)
_add("sty", "dir", 1, 0x84)
_add("sty", "dir", 2, 0x8C)
_add("sty", "dir,x", 1, 0x94)

# --- index loads / compares ----------------------------------------------------------------------------
_add("ldx", "imm", 1, 0xA2)
_add("ldx", "imm", 2, 0xA2)
_add("ldx", "dir", 1, 0xA6)
_add("ldx", "dir", 2, 0xAE)
_add("ldx", "dir,y", 1, 0xB6)
_add("ldx", "dir,y", 2, 0xBE)
_add("ldy", "imm", 1, 0xA0)
_add("ldy", "imm", 2, 0xA0)
_add("ldy", "dir", 1, 0xA4)
_add("ldy", "dir", 2, 0xAC)
_add("ldy", "dir,x", 1, 0xB4)
_add("ldy", "dir,x", 2, 0xBC)
_add("cpx", "imm", 1, 0xE0)
_add("cpx", "imm", 2, 0xE0)
_add("cpx", "dir", 1, 0xE4)
_add("cpx", "dir", 2, 0xEC)
_add("cpy", "imm", 1, 0xC0)
_add("cpy", "imm", 2, 0xC0)
_add("cpy", "dir", 1, 0xC4)
_add("cpy", "dir", 2, 0xCC)

# --- jumps -------------------------------------------------------------------------------------------------
_add("jmp", "dir", 2, 0x4C)
_add("jmp", "dir", 3, 0x5C)  # JMP long == JML
_add("jmp", "(dir)", 2, 0x6C)
_add("jmp", "(dir,x)", 2, 0x7C)
_add("jmp", "[dir]", 2, 0xDC)  # JMP [abs] == JML [abs]
_add("jml", "dir", 3, 0x5C)
_add("jml", "[dir]", 2, 0xDC)
_add("jsr", "dir", 2, 0x20)
_add("jsr", "dir", 3, 0x22)  # JSR long == JSL
_add("jsr", "(dir,x)", 2, 0xFC)
_add("jsl", "dir", 3, 0x22)

# --- stack / misc with operands -----------------------------------------------------------------------------
_add("pea", "dir", 2, 0xF4)
_add("pea", "imm", 2, 0xF4)  # also written PEA #imm16
_add("pei", "(dir)", 1, 0xD4)
_add("rep", "imm", 1, 0xC2)
_add("sep", "imm", 1, 0xE2)
_add("cop", "imm", 1, 0x02)
_add("cop", "dir", 1, 0x02)
_add("brk", "imp", 0, 0x00)
_add("brk", "imm", 1, 0x00)  # BRK with signature byte
_add("brk", "dir", 1, 0x00)
_add("wdm", "imm", 1, 0x42)
_add("wdm", "dir", 1, 0x42)
# relative branches (operand = displacement target; encoding decided by C05) and block moves are
# listed so that their mnemonics are known; their operand encoding is outside this table.
BRANCHES = {"bpl": 0x10, "bmi": 0x30, "bvc": 0x50, "bvs": 0x70, "bcc": 0x90, "bcs": 0xB0, "bne": 0xD0, "beq": 0xF0, "bra": 0x80}
LONG_BRANCHES = {"brl": 0x82, "per": 0x62}
BLOCK_MOVES = {"mvn": 0x54, "mvp": 0x44}

# --- implied ------------------------------------------------------------------------------------------------------
for mn, op in (
    ("clc", 0x18), ("sec", 0x38), ("cli", 0x58), ("sei", 0x78), ("clv", 0xB8), ("cld", 0xD8), ("sed", 0xF8),
    ("dex", 0xCA), ("dey", 0x88), ("inx", 0xE8), ("iny", 0xC8), ("nop", 0xEA),
    ("pha", 0x48), ("pla", 0x68), ("php", 0x08), ("plp", 0x28), ("phx", 0xDA), ("plx", 0xFA), ("phy", 0x5A), ("ply", 0x7A),
    ("phb", 0x8B), ("plb", 0xAB), ("phd", 0x0B), ("pld", 0x2B), ("phk", 0x4B),
    ("rti", 0x40), ("rts", 0x60), ("rtl", 0x6B), ("stp", 0xDB), ("wai", 0xCB),
    ("tax", 0xAA), ("tay", 0xA8), ("txa", 0x8A), ("tya", 0x98), ("tsx", 0xBA), ("txs", 0x9A), ("txy", 0x9B), ("tyx", 0xBB),
    ("tcd", 0x5B), ("tdc", 0x7B), ("tcs", 0x1B), ("tsc", 0x3B), ("xba", 0xEB), ("xce", 0xFB),
):
    _add(mn, "imp", 0, op)

MNEMONICS = sorted({k[0] for k in ISA} | set(BRANCHES) | set(LONG_BRANCHES) | set(BLOCK_MOVES))


def self_check():
    """Every opcode byte 0x00-0xFF is accounted for exactly by the matrix (aliases aside)."""
    ops = {}
    for (mn, shape, w), op in ISA.items():
        ops.setdefault(op, set()).add(mn)
    for d in (BRANCHES, LONG_BRANCHES, BLOCK_MOVES):
        for mn, op in d.items():
            ops.setdefault(op, set()).add(mn)
    missing = [hex(o) for o in range(256) if o not in ops]
    return missing


if __name__ == "__main__":
    print("missing opcodes:", self_check(), "entries:", len(ISA))
