"""Reference layout model (textbook mapping formulas + a walk over a program *skeleton*).

Geometry of a mapping: ROM bank runs [(first, last)] with a common bank size (mask) and window
base, RAM bank ranges.  All functions return z3 terms over 64-bit vectors."""
import z3

W = 64


def B(x):
    return z3.BitVecVal(x, W)


GEOMS = {
    "low": {"runs": [(0x00, 0x6F), (0x80, 0xCF)], "mask": 0x8000, "ram": [(0x7E, 0x7F)]},
    "high": {"runs": [(0x40, 0x7D), (0xC0, 0xFF)], "mask": 0x10000, "ram": [(0x7E, 0x7F)]},
    # user mapping installed with `.map` (see MAP_SOURCE)
    "map": {"runs": [(0x00, 0x3F), (0x80, 0xBF)], "mask": 0x10000, "ram": [(0x7E, 0x7F)]},
}

MAP_SOURCE = (
    ".map identifier=1 bank_range=0x00, 0x3f addr_range=0x0000, 0xffff mask=0x10000 mirror_bank_range=0x80, 0xbf\n"
    ".map identifier=2 bank_range=0x7e, 0x7f addr_range=0x0000, 0xffff mask=0x10000 writable=1\n"
)


def base(g):
    return 0x8000 if g["mask"] == 0x8000 else 0


def bank(a):
    return (a >> 16) & 0xFF


def is_rom(g, a):
    b = bank(a)
    return z3.And(a >= 0, a <= 0xFFFFFF, z3.Or(*[z3.And(b >= f, b <= l) for f, l in g["runs"]]))


def in_window(g, a):
    return z3.And(is_rom(g, a), (a & 0xFFFF) >= base(g))


def is_ram(g, a):
    b = bank(a)
    return z3.And(a >= 0, a <= 0xFFFFFF, z3.Or(*[z3.And(b >= f, b <= l) for f, l in g["ram"]]))


def first_of(g, a):
    b = bank(a)
    t = B(g["runs"][0][0])
    for f, l in g["runs"][1:]:
        t = z3.If(z3.And(b >= f, b <= l), B(f), t)
    return t


def run_size(g, a):
    """Bytes from the start of a's bank run to its end."""
    b = bank(a)
    t = B((g["runs"][0][1] - g["runs"][0][0] + 1) * g["mask"])
    for f, l in g["runs"][1:]:
        t = z3.If(z3.And(b >= f, b <= l), B((l - f + 1) * g["mask"]), t)
    return t


def offset(g, a):
    """File offset of in-window ROM address a."""
    return (bank(a) - first_of(g, a)) * g["mask"] + ((a & 0xFFFF) - base(g))


def advance(g, a, n):
    """Address whose file offset is n larger (same run, wrapping to the next bank's window start)."""
    off = offset(g, a) + n
    m = B(g["mask"])
    return ((first_of(g, a) + z3.UDiv(off, m)) << 16) | (base(g) + z3.URem(off, m))


class Layout:
    """Walks a skeleton: keeps (storage offset, run address) and lists the expected blocks.

    kind of every position operand is static: 'rom' (in-window ROM address) or 'ram'."""

    def __init__(self, geom):
        self.g = GEOMS[geom] if isinstance(geom, str) else geom
        self.blocks = []          # [(offset term, [byte terms])]
        self.cur = None
        self.S = None             # storage offset of the next byte (None: position has no file offset)
        self.A = None             # run address of the next byte
        self.run_is_ram = False
        self.ram_emission = False  # bytes were emitted while *= pointed into RAM
        self.pre = []             # preconditions (stay inside the mapped run)
        self.positions = []       # every *= / @= operand met: (address term, kind)

    def start(self, S, A):
        self.S, self.A = S, A
        self.cur = (S, [])

    def _flush(self):
        if self.cur is not None and self.cur[1]:
            self.blocks.append(self.cur)
        self.cur = None

    def star(self, p, kind):
        self.positions.append((p, kind))
        self._flush()
        if kind == "rom":
            self.S = offset(self.g, p)
            self.cur = (self.S, [])
        else:
            self.S = None
        self.A = p
        self.run_is_ram = kind == "ram"

    def at(self, r, kind):
        self.positions.append((r, kind))
        self.A = r
        self.run_is_ram = kind == "ram"

    def emit(self, byte_terms):
        n = len(byte_terms)
        if n == 0:
            return
        if self.S is None:
            self.ram_emission = True
        else:
            if self.cur is None:
                self.cur = (self.S, [])
            self.cur[1].extend(byte_terms)
            self.S = self.S + n
        if self.run_is_ram:
            self.A = self.A + n
        else:
            self.pre.append(offset(self.g, self.A) + n < run_size(self.g, self.A))
            self.A = advance(self.g, self.A, n)

    def finish(self):
        self._flush()
        return self.blocks
