"""Independent model of table-encoded text (written from the property statement and the .tbl
format: one `HEXCODE[:N]=text` entry per line, `\\n` in the text meaning a newline)."""
import z3


def parse_table(src):
    entries = []
    # text-mode reading: \r\n and \r become \n; nothing else ends a line (U+000B, U+000C, U+001C-1E, U+0085 ... do not)
    for line in src.replace("\r\n", "\n").replace("\r", "\n").split("\n"):
        if "=" not in line:
            continue
        left, text = line.split("=", 1)
        left = left.strip()
        ignore = None
        if ":" in left:
            left, ign = left.split(":", 1)
            ignore = int(ign)
        if not left or len(left) % 2 or any(c not in "0123456789abcdefABCDEF" for c in left) or text == "":
            continue
        code = bytes(int(left[i: i + 2], 16) for i in range(0, len(left), 2))
        entries.append((text.replace("\\n", "\n"), code, ignore))
    # later lines override earlier ones with the same text
    table = {}
    for text, code, ignore in entries:
        table[text] = (code, ignore)
    return table


def unique_prefix_free(table):
    codes = [c for c, _ in table.values()]
    if len(set(codes)) != len(codes):
        return False
    for a in codes:
        for b in codes:
            if a is not b and b.startswith(a):
                return False
    return all(ign is None for _, ign in table.values())


def _c(x):
    return z3.BitVecVal(x, 8) if isinstance(x, int) else x


def _eq(ch, code):
    if isinstance(ch, int):
        return ch == code
    return ch == code


def _ishex(ch):
    if isinstance(ch, int):
        return chr(ch) in "0123456789abcdefABCDEF"
    return z3.Or(z3.And(z3.UGE(ch, 0x30), z3.ULE(ch, 0x39)), z3.And(z3.UGE(ch, 0x41), z3.ULE(ch, 0x46)), z3.And(z3.UGE(ch, 0x61), z3.ULE(ch, 0x66)))


def _hexval(ch):
    c = z3.ZeroExt(56, _c(ch))
    return z3.If(c <= 0x39, c - 0x30, z3.If(c >= 0x61, c - 0x57, c - 0x37))


def _and(conds):
    conds = [c for c in conds if c is not True]
    if any(c is False for c in conds):
        return False
    if not conds:
        return True
    return z3.And(*conds) if len(conds) > 1 else conds[0]


def tokenize(chars, table, decide):
    """Longest-match tokenisation.  Returns list of ('code', bytes, text) | ('raw', term) items,
    or None when the string contains an escape the statement does not specify ([0x + 1 or >= 3 digits + ])."""
    n = len(chars)
    maxlen = max((len(t) for t in table), default=0)
    out = []
    i = 0
    while i < n:
        # escapes: [0xNN]
        if i + 3 < n and decide(_and([_eq(chars[i], 0x5B), _eq(chars[i + 1], 0x30), _eq(chars[i + 2], 0x78)])):
            k = 0
            while i + 3 + k < n and decide(_ishex(chars[i + 3 + k])):
                k += 1
            if k >= 1 and i + 3 + k < n and decide(_eq(chars[i + 3 + k], 0x5D)):
                if k != 2:
                    return None
                out.append(("raw", _hexval(chars[i + 3]) * 16 + _hexval(chars[i + 4])))
                i += 6
                continue
        matched = False
        for L in range(min(maxlen, n - i), 0, -1):
            for text, (code, _ign) in table.items():
                if len(text) != L:
                    continue
                if any(ord(c) > 255 for c in text):
                    continue
                if decide(_and([_eq(chars[i + j], ord(text[j])) for j in range(L)])):
                    out.append(("code", code, text))
                    i += L
                    matched = True
                    break
            if matched:
                break
        if not matched:
            i += 1
    return out
