"""symx -- symbolic execution of the real a816 source on shadow values, decided by z3.

See /verif/DESIGN.md section 3.  The modules of /repo are loaded through an AST-instrumenting
import hook (loader.py) and executed natively; integers / characters / bytes that the harness
marks symbolic are carried by the shadow types below, every data-dependent branch is decided
by a solver query on the path condition (Engine.branch) and every feasible side is explored by
re-execution (Engine.explore).
"""
from .core import (  # noqa: F401
    ALL256,
    W,
    Engine,
    EngineError,
    FuelExhausted,
    PathAbort,
    SBool,
    SInt,
    Unmodelled,
    bv,
    concretize,
    current,
    int_member_term,
    member_term,
    sbool,
    set_engine,
)
from .values import (  # noqa: F401
    SBlob,
    SBytes,
    SChoice,
    SEnum,
    SRope,
    SStr,
    cterm,
    mkbytes,
    mkstr,
)
from .loader import install, FUNCS  # noqa: F401
