"""Engine (path exploration, branch decisions) and the symbolic integer."""
import time

import z3

W = 64  # bit-vector width standing for Python's unbounded int; every overflow is guarded

LIM = 1 << 62


_THASH = {}
_COMMUTATIVE = None


def thash(term):
    """Structural hash of a term that does not depend on the argument order of commutative
    operators (z3's rewriter orders them by AST id, which depends on what else was built before:
    the same condition met on a re-execution may come back as `b*a` instead of `a*b`)."""
    global _COMMUTATIVE
    if isinstance(term, _H):
        return term.h
    if _COMMUTATIVE is None:
        _COMMUTATIVE = {z3.Z3_OP_BADD, z3.Z3_OP_BMUL, z3.Z3_OP_BAND, z3.Z3_OP_BOR, z3.Z3_OP_BXOR, z3.Z3_OP_AND, z3.Z3_OP_OR,
                        z3.Z3_OP_EQ, z3.Z3_OP_DISTINCT, z3.Z3_OP_IFF, z3.Z3_OP_XOR}
    stack = [term]
    while stack:
        t = stack[-1]
        i = t.get_id()
        if i in _THASH:
            stack.pop()
            continue
        if not z3.is_app(t) or t.num_args() == 0:
            _THASH[i] = (t, hash(("leaf", t.sexpr())))
            stack.pop()
            continue
        kids = t.children()
        missing = [c for c in kids if c.get_id() not in _THASH]
        if missing:
            stack.extend(missing)
            continue
        hs = [_THASH[c.get_id()][1] for c in kids]
        d = t.decl()
        k = d.kind()
        if k in _COMMUTATIVE:
            hs.sort()
        try:
            ps = tuple(str(x) for x in d.params())
        except z3.Z3Exception:
            ps = ()
        _THASH[i] = (t, hash((k, d.name(), ps, tuple(hs), t.size() if z3.is_bv(t) else -1)))
        stack.pop()
    if len(_THASH) > 400000:
        keep = _THASH[term.get_id()]
        _THASH.clear()
        _THASH[term.get_id()] = keep
    return _THASH[term.get_id()][1]


class Unmodelled(BaseException):
    """An operation on a shadow value that the engine does not model.

    BaseException on purpose: no `except Exception` / `except KeyError` in the code under test
    may swallow it.  The path is then *degraded* (checked concretely on one model only)."""


class PathAbort(BaseException):
    """The current path is infeasible / abandoned."""


class EngineError(BaseException):
    """Internal inconsistency (non-deterministic re-execution, solver unknown ...)."""


class FuelExhausted(BaseException):
    """The tick budget of a path is exhausted (termination checks)."""


ENGINE = None


def current():
    return ENGINE


def set_engine(e):
    global ENGINE
    ENGINE = e


ALL256 = frozenset(range(256))


class Engine:
    def __init__(self, timeout_ms=60000, max_ticks=None):
        self.solver = z3.Solver()
        self.solver.set("timeout", timeout_ms)
        self.timeout_ms = timeout_ms
        self.quick_ms = 2500
        self.fresh_queries = 0
        self.queries = 0
        self.solver_time = 0.0
        self.paths = 0
        self.decisions_total = 0
        self.dom_decisions = 0
        self.max_ticks = max_ticks
        self.init_domains = {}
        self.keep = []  # references to declared variables (keeps z3 AST ids stable)
        self.unknowns = 0
        self._reset_path([], [])
        self.worklist = []

    def _reset_path(self, prefix, hashes):
        self.prefix = prefix
        self.prefix_hashes = hashes
        self.decisions = []
        self.hashes = []
        self.pc = []
        self.guards = []
        self.ticks = 0
        self.model = None
        self.domains = dict(self.init_domains)
        self.decided = {}
        self.tainted = set()
        self.notes = []

    # ------------------------------------------------------------------ solver
    def check(self, *extra):
        t = time.time()
        self.queries += 1
        r = self.solver.check(*extra)
        self.solver_time += time.time() - t
        if r == z3.unknown:
            self.unknowns += 1
        return r

    def decide(self, *extra):
        """Satisfiability of path condition + extra for the final assertions: the incremental
        solver first (short time limit), then a fresh solver (full preprocessing / bit-blasting
        pipeline, which the incremental core does not use).  Returns (result, model|None)."""
        if not any(has_symbolic_mul(t) for t in extra):
            self.solver.set("timeout", self.quick_ms)
            try:
                r = self.check(*extra)
            finally:
                self.solver.set("timeout", self.timeout_ms)
            if r == z3.sat:
                return r, self.solver.model()
            if r == z3.unsat:
                return r, None
            self.unknowns -= 1
        else:
            # the rewriter alone often decides equalities between two spellings of a product
            try:
                simp = [z3.simplify(c, som=True, pull_cheap_ite=True) for c in extra]
            except z3.Z3Exception:
                simp = list(extra)
            if any(z3.is_false(c) for c in simp):
                self.queries += 1
                self.rewriter_unsat = getattr(self, "rewriter_unsat", 0) + 1
                return z3.unsat, None
            # products of symbolic factors: try the query with multiplication abstracted to an
            # uninterpreted function first -- equal factors give equal products by congruence,
            # which is all most assertions need; only `unsat` is conclusive there
            memo = {}
            s = z3.Solver()
            s.set("timeout", min(self.timeout_ms, 20000))
            s.add(*[abstract_mul(c, memo) for c in self.pc])
            # (rewritten first: masks `x & 0xFFFF` become extracts, which the narrowing rule needs)
            s.add(*[abstract_mul(z3.simplify(c), memo) for c in extra])
            s.add(*memo.get("comm", []))
            t = time.time()
            self.queries += 1
            r = s.check()
            self.solver_time += time.time() - t
            if r == z3.unsat:
                self.abstract_unsat = getattr(self, "abstract_unsat", 0) + 1
                return r, None
        s = z3.Solver()
        s.set("timeout", self.timeout_ms)
        s.add(*self.pc)
        s.add(*extra)
        t = time.time()
        self.queries += 1
        self.fresh_queries += 1
        r = s.check()
        self.solver_time += time.time() - t
        if r == z3.sat:
            return r, s.model()
        if r == z3.unknown:
            self.unknowns += 1
        return r, None

    def _fresh(self, *extra):
        s = z3.Solver()
        s.set("timeout", self.timeout_ms)
        s.add(*self.pc)
        s.add(*extra)
        t = time.time()
        self.queries += 1
        self.fresh_queries += 1
        r = s.check()
        self.solver_time += time.time() - t
        if r == z3.unknown:
            self.unknowns += 1
        return r, (s.model() if r == z3.sat else None)

    def add(self, *terms):
        """Assumption / precondition: added to the path condition."""
        for t in terms:
            if isinstance(t, bool):
                if not t:
                    raise PathAbort("assume False")
                continue
            for v in vars_of(t):
                self.tainted.add(v)
            self.solver.add(t)
            self.pc.append(t)
        self.model = None

    def get_model(self):
        if self.model is None:
            r = self.check()
            if r == z3.unsat:
                raise PathAbort("infeasible")
            if r != z3.sat:
                raise EngineError("solver unknown on path condition")
            self.model = self.solver.model()
        return self.model

    # ------------------------------------------------------------------ branching
    def _record(self, d, term):
        i = len(self.decisions)
        h = thash(term)
        if i < len(self.prefix_hashes) and self.prefix_hashes[i] != h:
            raise EngineError("non-deterministic re-execution at decision %d" % i)
        self.decisions.append(d)
        self.hashes.append(h)
        self.decisions_total += 1

    def branch(self, term, dom=None):
        if dom is not None:
            ch, allowed = dom
            cid = ch.get_id()
            if cid not in self.tainted:
                D = self.domains.get(cid, ALL256)
                inter = D & allowed
                i = len(self.decisions)
                if not inter:
                    return False
                if inter == D:
                    return True
                if i < len(self.prefix):
                    d = self.prefix[i]
                else:
                    d = True
                    self.worklist.append((self.decisions + [False], self.hashes + [thash(term)]))
                self._record(d, term)
                self.domains[cid] = inter if d else (D - allowed)
                c = term if d else z3.Not(term)
                self.solver.add(c)
                self.pc.append(c)
                self.model = None
                self.dom_decisions += 1
                return d
        else:
            for v in vars_of(term):
                self.tainted.add(v)
            term = z3.simplify(term)
        if z3.is_true(term):
            return True
        if z3.is_false(term):
            return False
        tid = term.get_id()
        hit = self.decided.get(tid)
        if hit is not None:
            return hit[0]
        i = len(self.decisions)
        if i < len(self.prefix):
            d = self.prefix[i]
            self.model = None
        else:
            m = self.get_model()
            mv = z3.is_true(m.eval(term, model_completion=True))
            other = z3.Not(term) if mv else term
            r = self.check(other)
            if r == z3.unknown:
                # the incremental core gives up on some bit-vector arithmetic: ask a fresh solver
                self.unknowns -= 1
                r, fresh_model = self._fresh(other)
                if r == z3.unknown:
                    raise EngineError("solver unknown at branch")
                if r == z3.sat:
                    self.worklist.append((self.decisions + [False], self.hashes + [thash(term)]))
                    d = True
                    if not mv:
                        self.model = None
                    self._record(d, term)
                    c = term
                    self.solver.add(c)
                    self.pc.append(c)
                    self.decided[tid] = (d, term)
                    return d
            if r == z3.sat:
                other_model = self.solver.model()
                d = True
                self.worklist.append((self.decisions + [False], self.hashes + [thash(term)]))
                if not mv:
                    self.model = other_model
            else:
                d = mv
        self._record(d, term)
        c = term if d else z3.Not(term)
        self.solver.add(c)
        self.pc.append(c)
        self.decided[tid] = (d, term)
        return d

    def choose(self, terms):
        """Decision among mutually exclusive options (z3 Bools): returns the index of the option
        that holds on this path, or -1 when none does.  Model-guided (one feasibility query per
        call) and recorded as a value decision so that re-execution is deterministic."""
        terms = [z3.simplify(t) for t in terms]
        for j, t in enumerate(terms):
            if z3.is_true(t):
                return j
        if all(z3.is_false(t) for t in terms):
            return -1
        ckey = tuple(t.get_id() for t in terms)
        hit = self.decided.get(ckey)
        if hit is not None:
            return hit[0]
        self.decided[ckey] = None  # placeholder replaced below
        try:
            k = self._choose(terms)
        except BaseException:
            self.decided.pop(ckey, None)
            raise
        self.decided[ckey] = (k, terms)
        return k

    def _choose(self, terms):
        for t in terms:
            for v in vars_of(t):
                self.tainted.add(v)
        none = z3.And(*[z3.Not(t) for t in terms]) if terms else z3.BoolVal(True)
        h = thash(z3.Or(*terms) if terms else z3.BoolVal(False))
        i = len(self.decisions)

        def cond(k):
            return terms[k] if k >= 0 else none

        excluded = []
        if i < len(self.prefix):
            d = self.prefix[i]
            if not isinstance(d, tuple) or d[0] not in ("opt", "optx"):
                raise EngineError("non-deterministic re-execution (option decision expected) at %d" % i)
            if d[0] == "opt":
                c = cond(d[1])
                self._record(d, z3.BoolVal(True) if False else _H(h))
                self.solver.add(c)
                self.pc.append(c)
                self.model = None
                return d[1]
            excluded = list(d[1])
            for j in excluded:
                c = z3.Not(cond(j))
                self.solver.add(c)
                self.pc.append(c)
            self.model = None
        m = self.get_model()
        k = -1
        for j, t in enumerate(terms):
            if z3.is_true(m.eval(t, model_completion=True)):
                k = j
                break
        c = cond(k)
        r = self.check(z3.Not(c))
        if r == z3.unknown:
            raise EngineError("solver unknown at option decision")
        if r == z3.sat:
            self.worklist.append((self.decisions + [("optx", excluded + [k])], self.hashes + [h]))
        self._record(("opt", k), _H(h))
        self.solver.add(c)
        self.pc.append(c)
        self.model = None if r == z3.sat else self.model
        return k

    # ------------------------------------------------------------------ exploration
    def explore(self, fn, on_path, max_paths=None, deadline=None):
        """DFS over decision prefixes; fn() is re-executed per path.

        on_path(engine, out) is called with the solver holding the path condition.
        Returns None when complete, or a string naming the cap that stopped it."""
        self.worklist = [([], [])]
        while self.worklist:
            if max_paths is not None and self.paths >= max_paths:
                return "max_paths"
            if deadline is not None and time.time() > deadline:
                return "deadline"
            prefix, hashes = self.worklist.pop()
            self._reset_path(prefix, hashes)
            self.solver.push()
            try:
                try:
                    out = fn()
                except PathAbort:
                    continue
                self.paths += 1
                on_path(self, out)
            finally:
                self.solver.pop()
        return None

    def guards_hold(self):
        """True iff no 64-bit wrap-around is possible on this path (side conditions of SInt)."""
        if not self.guards:
            return True
        r, _ = self.decide(z3.Not(z3.And(*self.guards)))
        if r == z3.unsat:
            return True
        if r == z3.sat:
            return False
        raise EngineError("solver unknown on overflow guards")


class _H:
    """Carries a precomputed structural hash for Engine._record."""

    def __init__(self, h):
        self.h = h

    def hash(self):
        return self.h


_vars_cache = {}


def has_symbolic_mul(term):
    """True when the term contains a multiplication / division of two non-constant operands
    (the incremental solver core handles those badly; a fresh solver bit-blasts them)."""
    stack, seen = [term], set()
    while stack:
        t = stack.pop()
        i = t.get_id()
        if i in seen:
            continue
        seen.add(i)
        if z3.is_app(t):
            k = t.decl().kind()
            if k in (z3.Z3_OP_BMUL, z3.Z3_OP_BSDIV, z3.Z3_OP_BUDIV, z3.Z3_OP_BSREM, z3.Z3_OP_BUREM, z3.Z3_OP_BSMOD):
                if sum(0 if z3.is_bv_value(c) else 1 for c in t.children()) >= 2:
                    return True
            stack.extend(t.children())
    return False


_MUL_UF = {}


def abstract_mul(term, memo=None):
    """Copy of the term with every product of two non-constant factors replaced by an
    uninterpreted function of the (id-ordered) factors.  The abstraction only forgets facts about
    multiplication, so `unsat` for the abstracted query implies `unsat` for the real one."""
    memo = {} if memo is None else memo

    def uf(w):
        f = _MUL_UF.get(w)
        if f is None:
            f = _MUL_UF[w] = z3.Function("sx_mul_%d" % w, z3.BitVecSort(w), z3.BitVecSort(w), z3.BitVecSort(w))
        return f

    def factors(t):
        """Factors of a product, nested products and negations flattened (-x = (-1) * x)."""
        if z3.is_app(t):
            k = t.decl().kind()
            if k == z3.Z3_OP_BMUL:
                out = []
                for c in t.children():
                    out += factors(c)
                return out
            if k == z3.Z3_OP_BNEG:
                return [z3.BitVecVal(-1, t.size())] + factors(t.arg(0))
        return [t]

    def product(fs, w):
        """c * f(f(x1, x2), x3) ... over the abstracted non-constant factors (id order)."""
        c = 1
        rest = []
        for x in fs:
            if z3.is_bv_value(x):
                c = (c * x.as_long()) % (1 << w)
            else:
                rest.append(go(x))
        rest.sort(key=lambda x: x.get_id())
        if not rest:
            return z3.BitVecVal(c, w)
        r = rest[0]
        if len(rest) >= 2:
            f = uf(w)
            for x in rest[1:]:
                memo.setdefault("comm", []).append(f(r, x) == f(x, r))   # ground commutativity instance
                r = f(r, x)
        return r if c == 1 else z3.BitVecVal(c, w) * r

    def nsym(fs):
        return sum(0 if z3.is_bv_value(x) else 1 for x in fs)

    def go(t):
        i = t.get_id()
        hit = memo.get(i)
        if hit is not None:
            return hit[1]
        if not z3.is_app(t) or t.num_args() == 0:
            r = t
        else:
            k = t.decl().kind()
            if k == z3.Z3_OP_EXTRACT and t.params()[0] + 1 < t.arg(0).size() and nsym(factors(t.arg(0))) >= 2:
                # bits h..l of a product depend only on bits h..0 of its factors: the product is taken
                # at width h+1, so that two spellings that differ in the width chosen by the rewriter meet
                h, l = t.params()
                fs = []
                for x in factors(t.arg(0)):
                    fs += factors(z3.simplify(z3.Extract(h, 0, x)))
                r = z3.Extract(h, l, product(fs, h + 1))
            elif k in (z3.Z3_OP_BMUL, z3.Z3_OP_BNEG) and nsym(factors(t)) >= 2:
                r = product(factors(t), t.size())
            else:
                r = t.decl()(*[go(c) for c in t.children()])
        memo[i] = (t, r)   # the original term is kept alive so that its id is not reused
        return r

    return go(term)


def vars_of(term):
    k = term.get_id()
    hit = _vars_cache.get(k)
    r = hit[1] if hit is not None else None
    if r is None:
        r = set()
        stack = [term]
        seen = set()
        while stack:
            t = stack.pop()
            i = t.get_id()
            if i in seen:
                continue
            seen.add(i)
            if z3.is_const(t) and t.decl().kind() == z3.Z3_OP_UNINTERPRETED:
                r.add(i)
            else:
                stack.extend(t.children())
        if len(_vars_cache) > 200000:
            _vars_cache.clear()
        _vars_cache[k] = (term, r)  # holding the term keeps its id from being reused
    return r


def bv(x):
    """z3 BitVec(W) term of an int-like value."""
    if isinstance(x, SInt):
        return x.t
    if isinstance(x, bool):
        return z3.BitVecVal(int(x), W)
    if isinstance(x, int):
        return z3.BitVecVal(x, W)
    if isinstance(x, SBool):
        return z3.If(x.t, z3.BitVecVal(1, W), z3.BitVecVal(0, W))
    if z3.is_bv(x):
        if x.size() == W:
            return x
        return z3.ZeroExt(W - x.size(), x)
    raise Unmodelled(f"bv({type(x).__name__})")


class SBool:
    def __init__(self, t, dom=None):
        self.t = t
        self.dom = dom  # (char term, frozenset of allowed code points) or None

    def __bool__(self):
        return ENGINE.branch(self.t, self.dom)

    def __repr__(self):
        return f"SBool({self.t})"


def sbool(t, dom=None):
    if isinstance(t, bool):
        return t
    if dom is None:
        t = z3.simplify(t)
    if z3.is_true(t):
        return True
    if z3.is_false(t):
        return False
    return SBool(t, dom)


_member_cache = {}


def _ranges(vals):
    vals = sorted(vals)
    i = 0
    while i < len(vals):
        j = i
        while j + 1 < len(vals) and vals[j + 1] == vals[j] + 1:
            j += 1
        yield vals[i], vals[j]
        i = j + 1


def member_term(ch, allowed):
    """z3 term for (8-bit) ch in allowed, as unsigned ranges; cached."""
    key = (ch.get_id(), allowed)
    r = _member_cache.get(key)
    if r is None:
        terms = []
        for a, b in _ranges(allowed):
            terms.append(ch == a if a == b else z3.And(z3.UGE(ch, a), z3.ULE(ch, b)))
        r = z3.Or(*terms) if len(terms) != 1 else terms[0]
        if len(_member_cache) > 100000:
            _member_cache.clear()
        _member_cache[key] = r
    return r


def int_member_term(t, ks):
    terms = []
    for a, b in _ranges(set(ks)):
        terms.append(t == a if a == b else z3.And(t >= a, t <= b))
    if not terms:
        return z3.BoolVal(False)
    return z3.Or(*terms) if len(terms) != 1 else terms[0]


def _iv(x):
    if isinstance(x, SInt):
        return x.lo, x.hi
    if isinstance(x, bool):
        return int(x), int(x)
    if isinstance(x, int):
        return x, x
    return None, None


def _inside(lo, hi):
    return lo is not None and -LIM < lo and hi < LIM


_INTLIKE = None  # set below


class SInt:
    """Stand-in for a Python int: z3 BitVec(64) term + conservative interval.

    Python semantics for every operator; any + - * << that may leave 63 bits adds a
    no-overflow side condition to the engine (checked at the end of the path)."""

    __slots__ = ("t", "lo", "hi")

    def __init__(self, t, lo=None, hi=None):
        if lo is not None and lo == hi:
            t = z3.BitVecVal(lo, W)
        self.t = t
        self.lo = lo
        self.hi = hi

    @staticmethod
    def _ok(o):
        return isinstance(o, (int, SInt, SBool))

    def _guard(self, g):
        ENGINE.guards.append(g)

    def __add__(self, o):
        if not self._ok(o):
            return NotImplemented
        b = bv(o)
        (al, ah), (bl, bh) = _iv(self), _iv(o)
        lo = hi = None
        if None not in (al, ah, bl, bh):
            lo, hi = al + bl, ah + bh
        if not _inside(lo, hi):
            self._guard(z3.And(z3.BVAddNoOverflow(self.t, b, True), z3.BVAddNoUnderflow(self.t, b)))
            lo = hi = None
        return SInt(z3.simplify(self.t + b), lo, hi)

    __radd__ = __add__

    def __sub__(self, o):
        if not self._ok(o):
            return NotImplemented
        b = bv(o)
        (al, ah), (bl, bh) = _iv(self), _iv(o)
        lo = hi = None
        if None not in (al, ah, bl, bh):
            lo, hi = al - bh, ah - bl
        if not _inside(lo, hi):
            self._guard(z3.And(z3.BVSubNoOverflow(self.t, b), z3.BVSubNoUnderflow(self.t, b, True)))
            lo = hi = None
        return SInt(z3.simplify(self.t - b), lo, hi)

    def __rsub__(self, o):
        if not self._ok(o):
            return NotImplemented
        b = bv(o)
        (al, ah), (bl, bh) = _iv(o), _iv(self)
        lo = hi = None
        if None not in (al, ah, bl, bh):
            lo, hi = al - bh, ah - bl
        if not _inside(lo, hi):
            self._guard(z3.And(z3.BVSubNoOverflow(b, self.t), z3.BVSubNoUnderflow(b, self.t, True)))
            lo = hi = None
        return SInt(z3.simplify(b - self.t), lo, hi)

    def __mul__(self, o):
        if not self._ok(o):
            return NotImplemented
        b = bv(o)
        (al, ah), (bl, bh) = _iv(self), _iv(o)
        lo = hi = None
        if None not in (al, ah, bl, bh):
            vals = [x * y for x in (al, ah) for y in (bl, bh)]
            lo, hi = min(vals), max(vals)
        if not _inside(lo, hi):
            self._guard(z3.And(z3.BVMulNoOverflow(self.t, b, True), z3.BVMulNoUnderflow(self.t, b)))
            lo = hi = None
        return SInt(z3.simplify(self.t * b), lo, hi)

    __rmul__ = __mul__

    def __neg__(self):
        return 0 - self

    def __pos__(self):
        return self

    def __abs__(self):
        return SInt(z3.simplify(z3.If(self.t < 0, -self.t, self.t)))

    def __invert__(self):
        lo = hi = None
        if self.lo is not None:
            lo, hi = ~self.hi, ~self.lo
        return SInt(z3.simplify(~self.t), lo, hi)

    def __and__(self, o):
        if not self._ok(o):
            return NotImplemented
        r = SInt(z3.simplify(self.t & bv(o)))
        (al, ah), (bl, bh) = _iv(self), _iv(o)
        his = [h for (l, h) in ((al, ah), (bl, bh)) if l is not None and l >= 0]
        if his:
            r.lo, r.hi = 0, min(his)
        return r

    __rand__ = __and__

    def __or__(self, o):
        if not self._ok(o):
            return NotImplemented
        r = SInt(z3.simplify(self.t | bv(o)))
        (al, ah), (bl, bh) = _iv(self), _iv(o)
        if None not in (al, ah, bl, bh) and al >= 0 and bl >= 0:
            r.lo, r.hi = max(al, bl), (1 << max(ah.bit_length(), bh.bit_length())) - 1
        return r

    __ror__ = __or__

    def __xor__(self, o):
        if not self._ok(o):
            return NotImplemented
        r = SInt(z3.simplify(self.t ^ bv(o)))
        (al, ah), (bl, bh) = _iv(self), _iv(o)
        if None not in (al, ah, bl, bh) and al >= 0 and bl >= 0:
            r.lo, r.hi = 0, (1 << max(ah.bit_length(), bh.bit_length())) - 1
        return r

    __rxor__ = __xor__

    @staticmethod
    def _shift_amount(o):
        b = bv(o)
        lo, _ = _iv(o)
        if lo is None or lo < 0:
            if sbool(b < 0):
                raise ValueError("negative shift count")
        return b

    def __rshift__(self, o):
        if not self._ok(o):
            return NotImplemented
        b = self._shift_amount(o)
        lo = hi = None
        if isinstance(o, int) and self.lo is not None:
            lo, hi = self.lo >> o, self.hi >> o
        elif self.lo is not None and self.lo >= 0:
            lo, hi = 0, self.hi
        # arithmetic shift; amounts >= 64 give 0 / -1 like Python
        return SInt(z3.simplify(self.t >> b), lo, hi)

    @staticmethod
    def _shl_iv(a, o):
        (al, ah), (ol, oh) = _iv(a), _iv(o)
        if None in (al, ah, ol, oh) or ol < 0 or oh >= 62:
            return None, None
        vals = [x << y for x in (al, ah) for y in (ol, oh)]
        lo, hi = min(vals), max(vals)
        return (lo, hi) if _inside(lo, hi) else (None, None)

    def __lshift__(self, o):
        if not self._ok(o):
            return NotImplemented
        b = self._shift_amount(o)
        r = self.t << b
        lo, hi = self._shl_iv(self, o)
        if lo is None:
            self._guard(z3.And(z3.ULT(b, W), (r >> b) == self.t))
        return SInt(z3.simplify(r), lo, hi)

    def __rlshift__(self, o):
        a = bv(o)
        b = self._shift_amount(self)
        r = a << b
        lo, hi = self._shl_iv(o, self)
        if lo is None:
            self._guard(z3.And(z3.ULT(b, W), (r >> b) == a))
        return SInt(z3.simplify(r), lo, hi)

    def __rrshift__(self, o):
        a = bv(o)
        b = self._shift_amount(self)
        return SInt(z3.simplify(a >> b))

    @staticmethod
    def _floordivmod(a, b):
        q = a / b  # bvsdiv: truncating
        r = z3.SRem(a, b)
        adj = z3.And(r != 0, (r < 0) != (b < 0))
        return z3.If(adj, q - 1, q), z3.If(adj, r + b, r)

    def __floordiv__(self, o):
        if not self._ok(o):
            return NotImplemented
        if isinstance(o, int) and not isinstance(o, bool) and o > 0 and o & (o - 1) == 0:
            return self >> (o.bit_length() - 1)
        b = bv(o)
        if sbool(b == 0):
            raise ZeroDivisionError("integer division or modulo by zero")
        return SInt(z3.simplify(self._floordivmod(self.t, b)[0]))

    def __mod__(self, o):
        if not self._ok(o):
            return NotImplemented
        if isinstance(o, int) and not isinstance(o, bool) and o > 0 and o & (o - 1) == 0:
            r = SInt(z3.simplify(self.t & (o - 1)), 0, o - 1)
            if self.lo is not None and self.lo >= 0 and self.hi < o:
                r.lo, r.hi = self.lo, self.hi
            return r
        b = bv(o)
        if sbool(b == 0):
            raise ZeroDivisionError("integer division or modulo by zero")
        return SInt(z3.simplify(self._floordivmod(self.t, b)[1]))

    def __rfloordiv__(self, o):
        if sbool(self.t == 0):
            raise ZeroDivisionError("integer division or modulo by zero")
        return SInt(z3.simplify(self._floordivmod(bv(o), self.t)[0]))

    def __rmod__(self, o):
        if sbool(self.t == 0):
            raise ZeroDivisionError("integer division or modulo by zero")
        return SInt(z3.simplify(self._floordivmod(bv(o), self.t)[1]))

    def __divmod__(self, o):
        return self // o, self % o

    def __rdivmod__(self, o):
        return o // self, o % self

    def __pow__(self, o, mod=None):
        if mod is not None or not isinstance(o, int) or isinstance(o, bool) or o < 0 or o > 8:
            raise Unmodelled("SInt ** symbolic / large exponent")
        r = 1
        for _ in range(o):
            r = r * self
        return r

    def __rpow__(self, o):
        # constant ** symbolic: only powers of two with a small exponent (as a shift)
        if isinstance(o, int) and o == 2:
            return 1 << self
        raise Unmodelled("constant ** SInt")

    def __truediv__(self, o):
        return SRatio(self, o)

    def __rtruediv__(self, o):
        return SRatio(o, self)

    def _cmp(self, o, f, name):
        if not self._ok(o):
            return NotImplemented
        (al, ah), (bl, bh) = _iv(self), _iv(o)
        if None not in (al, ah, bl, bh):
            if name == "lt":
                if ah < bl:
                    return True
                if al >= bh:
                    return False
            elif name == "le":
                if ah <= bl:
                    return True
                if al > bh:
                    return False
            elif name == "gt":
                if al > bh:
                    return True
                if ah <= bl:
                    return False
            elif name == "ge":
                if al >= bh:
                    return True
                if ah < bl:
                    return False
        return sbool(f(self.t, bv(o)))

    def __lt__(self, o):
        return self._cmp(o, lambda a, b: a < b, "lt")

    def __le__(self, o):
        return self._cmp(o, lambda a, b: a <= b, "le")

    def __gt__(self, o):
        return self._cmp(o, lambda a, b: a > b, "gt")

    def __ge__(self, o):
        return self._cmp(o, lambda a, b: a >= b, "ge")

    def __eq__(self, o):
        if not self._ok(o):
            return False if o is None or isinstance(o, (str, bytes, tuple, list, dict)) else NotImplemented
        return sbool(self.t == bv(o))

    def __ne__(self, o):
        if not self._ok(o):
            return True if o is None or isinstance(o, (str, bytes, tuple, list, dict)) else NotImplemented
        return sbool(self.t != bv(o))

    def __bool__(self):
        if self.lo is not None and (self.lo > 0 or self.hi < 0):
            return True
        return ENGINE.branch(self.t != 0)

    def __hash__(self):
        raise Unmodelled("hash() of a symbolic value (dict/set key)")

    def __index__(self):
        raise Unmodelled("index(SInt): C-level use of a symbolic int")

    def __int__(self):
        raise Unmodelled("int(SInt) via C")

    def bit_length(self):
        return SBitLen(self)

    def _bit_length_term(self):
        a = z3.If(self.t < 0, -self.t, self.t)
        r = z3.BitVecVal(0, W)
        for k in range(W - 1):
            r = z3.If(z3.UGE(a, z3.BitVecVal(1 << k, W)), z3.BitVecVal(k + 1, W), r)
        return z3.simplify(r)

    def to_bytes(self, length=1, byteorder="big", *, signed=False):
        from .values import mkbytes

        if isinstance(length, SInt):
            length = concretize(length)
        if byteorder not in ("little", "big") or length > 7:
            raise Unmodelled("SInt.to_bytes(%r, %r)" % (length, byteorder))
        lo, hi = (-(1 << (8 * length - 1)), (1 << (8 * length - 1)) - 1) if signed else (0, (1 << (8 * length)) - 1)
        al, ah = _iv(self)
        if al is None or al < lo or ah > hi:
            if not bool(SBool(z3.And(self.t >= lo, self.t <= hi))):
                raise OverflowError("int too big to convert" if not signed else "int too big to convert")
        bs = [SInt(z3.simplify((self.t >> (8 * k)) & 0xFF), 0, 255) for k in range(length)]
        if byteorder == "big":
            bs.reverse()
        return mkbytes(bs)

    def __getattr__(self, name):
        if hasattr(int, name):
            raise Unmodelled(f"SInt.{name}")
        raise AttributeError(name)

    def __format__(self, spec):
        raise Unmodelled("format(SInt) via C")

    def __repr__(self):
        return f"SInt({self.t})"

    def __str__(self):
        raise Unmodelled("str(SInt) via C")


class SBitLen(SInt):
    """x.bit_length(): comparisons with a constant k become range tests on x itself
    (bit_length <= k  <=>  -2^k < x < 2^k); the 63-level If-chain is only built when the value
    is used arithmetically."""

    __slots__ = ("src", "_t")

    def __init__(self, src):
        self.src = src
        self._t = None
        self.lo, self.hi = 0, 64

    @property
    def t(self):
        if self._t is None:
            self._t = self.src._bit_length_term()
        return self._t

    @t.setter
    def t(self, v):
        self._t = v

    def _le(self, k):
        """Bool term / bool for bit_length <= k."""
        if k < 0:
            return False
        if k >= W - 1:
            return True
        x = self.src.t
        lo, hi = self.src.lo, self.src.hi
        if lo is not None and -(1 << k) < lo and hi < (1 << k):
            return True
        if lo is not None and (lo >= (1 << k) or hi <= -(1 << k)):
            return False
        return z3.And(x > -(1 << k), x < (1 << k))

    @staticmethod
    def _wrap(v, neg=False):
        if isinstance(v, bool):
            return (not v) if neg else v
        return sbool(z3.Not(v) if neg else v)

    def _cmp(self, o, f, name):
        if type(o) is int:
            if name == "le":
                return self._wrap(self._le(o))
            if name == "lt":
                return self._wrap(self._le(o - 1))
            if name == "gt":
                return self._wrap(self._le(o), neg=True)
            if name == "ge":
                return self._wrap(self._le(o - 1), neg=True)
        return SInt._cmp(self, o, f, name)

    def _eq_const(self, k):
        a, b = self._le(k), self._le(k - 1)
        if isinstance(a, bool) and isinstance(b, bool):
            return a and not b
        if a is False or b is True:
            return False
        ta = z3.BoolVal(True) if a is True else a
        tb = z3.BoolVal(False) if b is False else b
        return z3.And(ta, z3.Not(tb))

    def __eq__(self, o):
        if type(o) is int:
            return self._wrap(self._eq_const(o))
        return SInt.__eq__(self, o)

    def __ne__(self, o):
        if type(o) is int:
            return self._wrap(self._eq_const(o), neg=True)
        return SInt.__ne__(self, o)

    __hash__ = SInt.__hash__


class SRatio:
    """Result of `a / b` with a symbolic operand; only int(a / b) is modelled (see shims.s_int)."""

    def __init__(self, n, d):
        self.n, self.d = n, d

    def __int__(self):
        raise Unmodelled("int(ratio) via C")

    def __float__(self):
        raise Unmodelled("float(ratio)")


def concretize(x, limit=64):
    """Fork over the feasible values of a symbolic int (at most `limit` values).

    Recorded as a *value decision* so that re-execution is deterministic: ("val", v) pins the
    value, ("valx", [v1, ...]) means "any feasible value not yet explored"."""
    if not isinstance(x, SInt):
        return x
    if x.lo is not None and x.lo == x.hi:
        return x.lo
    e = ENGINE
    for v in vars_of(x.t):
        e.tainted.add(v)
    i = len(e.decisions)
    excluded = []
    if i < len(e.prefix):
        d = e.prefix[i]
        if not isinstance(d, tuple):
            raise EngineError("non-deterministic re-execution (value decision expected) at %d" % i)
        if d[0] == "val":
            v = d[1]
            e._record(d, x.t)
            c = x.t == v
            e.solver.add(c)
            e.pc.append(c)
            e.model = None
            return v
        excluded = list(d[1])
        for ex in excluded:
            c = x.t != ex
            e.solver.add(c)
            e.pc.append(c)
        e.model = None
    if len(excluded) >= limit:
        raise Unmodelled("concretize: more than %d feasible values" % limit)
    m = e.get_model()  # PathAbort when no further value is feasible
    v = m.eval(x.t, model_completion=True).as_signed_long()
    e.worklist.append((e.decisions + [("valx", excluded + [v])], e.hashes + [thash(x.t)]))
    e._record(("val", v), x.t)
    c = x.t == v
    e.solver.add(c)
    e.pc.append(c)
    return v
