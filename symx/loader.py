"""Import hook: loads a816.* / script.* from the files currently under $A816_REPO, applies a
purely syntactic instrumentation and executes the result as the module (DESIGN.md 3.1)."""
import ast
import importlib.abc
import importlib.util
import os
import sys

from .shims import BUILTIN_MAP, FUNCS, HELPERS, SymAst, SymCtypes, SymStruct  # noqa: F401


class Rewriter(ast.NodeTransformer):
    def __init__(self, shadowed, modname):
        self.shadowed = shadowed
        self.modname = modname
        self.scope = []

    def visit_Compare(self, node):
        self.generic_visit(node)
        if len(node.ops) == 1 and isinstance(node.ops[0], (ast.In, ast.NotIn)):
            call = ast.Call(ast.Name("_sx_contains", ast.Load()), [node.left, node.comparators[0]], [])
            if isinstance(node.ops[0], ast.NotIn):
                return ast.UnaryOp(ast.Not(), call)
            return call
        if len(node.ops) == 1 and not isinstance(node.ops[0], (ast.Is, ast.IsNot)):
            return ast.Call(ast.Name("_sx_b", ast.Load()), [node], [])
        return node

    def visit_Call(self, node):
        self.generic_visit(node)
        f = node.func
        if isinstance(f, ast.Name) and f.id in BUILTIN_MAP and f.id not in self.shadowed:
            node.func = ast.Name(BUILTIN_MAP[f.id], ast.Load())
        elif (
            isinstance(f, ast.Attribute)
            and f.attr == "join"
            and isinstance(f.value, ast.Constant)
            and isinstance(f.value.value, (str, bytes))
            and len(node.args) == 1
            and not node.keywords
        ):
            return ast.Call(ast.Name("_sx_join", ast.Load()), [f.value, node.args[0]], [])
        elif isinstance(f, ast.Attribute) and f.attr == "from_bytes" and isinstance(f.value, ast.Name) and f.value.id == "int" and "int" not in self.shadowed:
            node.func = ast.Name("_sx_int_from_bytes", ast.Load())
        elif isinstance(f, ast.Attribute) and f.attr == "get" and 1 <= len(node.args) <= 2 and not node.keywords:
            # mapping.get(key[, default]) with a possibly symbolic key
            return ast.Call(ast.Name("_sx_get", ast.Load()), [f.value] + node.args, [])
        return node

    def visit_Name(self, node):
        # a built-in passed as a value (map(ord, text), key=len, ...) must be the modelled one too
        if isinstance(node.ctx, ast.Load) and node.id in BUILTIN_MAP and node.id not in self.shadowed and node.id in ("ord", "chr", "len", "hex", "min", "max", "sum", "divmod"):
            return ast.copy_location(ast.Name(BUILTIN_MAP[node.id], ast.Load()), node)
        return node

    def visit_Subscript(self, node):
        self.generic_visit(node)
        if isinstance(node.ctx, ast.Load) and not isinstance(node.slice, ast.Slice):
            return ast.Call(ast.Name("_sx_getitem", ast.Load()), [node.value, node.slice], [])
        return node

    def visit_JoinedStr(self, node):
        self.generic_visit(node)
        parts = []
        for v in node.values:
            if isinstance(v, ast.Constant):
                parts.append(v)
            else:
                spec = v.format_spec if v.format_spec is not None else ast.Constant("")
                if isinstance(spec, ast.Call):
                    pass  # nested f-string spec already rewritten into an _sx_fstr call
                parts.append(
                    ast.Call(ast.Name("_sx_format", ast.Load()), [v.value, spec, ast.Constant(v.conversion)], [])
                )
        return ast.Call(ast.Name("_sx_fstr", ast.Load()), parts, [])

    def _tick(self, name=None):
        args = [ast.Constant(name)] if name else []
        return ast.Expr(ast.Call(ast.Name("_sx_tick", ast.Load()), args, []))

    def visit_While(self, node):
        self.generic_visit(node)
        node.body.insert(0, self._tick())
        return node

    def visit_For(self, node):
        self.generic_visit(node)
        node.body.insert(0, self._tick())
        return node

    def visit_ClassDef(self, node):
        self.scope.append(node.name)
        self.generic_visit(node)
        self.scope.pop()
        return node

    def visit_FunctionDef(self, node):
        self.scope.append(node.name)
        self.generic_visit(node)
        qual = self.modname + ":" + ".".join(self.scope)
        self.scope.pop()
        k = 0
        b0 = node.body[0] if node.body else None
        if isinstance(b0, ast.Expr) and isinstance(b0.value, ast.Constant) and isinstance(b0.value.value, str):
            k = 1
        node.body.insert(k, self._tick(qual))
        return node

    def visit_Import(self, node):
        # `import struct` binds the shim right away, so that formats precompiled while the module
        # body runs (struct.Struct(...), bound .pack) are modelled too
        out = []
        for al in node.names:
            if al.name == "struct":
                out.append(ast.Assign([ast.Name(al.asname or "struct", ast.Store())], ast.Name("_sx_mod_struct", ast.Load())))
            else:
                out.append(ast.Import([al]))
        return out

    def visit_ImportFrom(self, node):
        if node.module == "struct" and node.level == 0 and all(al.name != "*" for al in node.names):
            return [ast.Assign([ast.Name(al.asname or al.name, ast.Store())], ast.Attribute(ast.Name("_sx_mod_struct", ast.Load()), al.name, ast.Load())) for al in node.names]
        return node

    def visit_AnnAssign(self, node):
        if node.value is not None:
            node.value = self.visit(node.value)
        return node

    def visit_arguments(self, node):
        # defaults are evaluated once at definition time: leave untouched
        return node


def strip_annotations(tree):
    for n in ast.walk(tree):
        if isinstance(n, (ast.FunctionDef, ast.AsyncFunctionDef)):
            n.returns = None
            a = n.args
            for x in a.args + a.kwonlyargs + a.posonlyargs:
                x.annotation = None
            if a.vararg:
                a.vararg.annotation = None
            if a.kwarg:
                a.kwarg.annotation = None


def instrument(src, path, modname):
    tree = ast.parse(src, path)
    strip_annotations(tree)
    shadowed = {n.id for n in ast.walk(tree) if isinstance(n, ast.Name) and isinstance(n.ctx, ast.Store)}
    shadowed |= {n.name for n in ast.walk(tree) if isinstance(n, (ast.FunctionDef, ast.ClassDef))}
    shadowed |= {a.arg for n in ast.walk(tree) if isinstance(n, ast.arguments) for a in n.args + n.kwonlyargs + n.posonlyargs}
    for n in ast.walk(tree):
        if isinstance(n, (ast.Import, ast.ImportFrom)):
            for al in n.names:
                shadowed.add((al.asname or al.name).split(".")[0])
    tree = Rewriter(shadowed, modname).visit(tree)
    ast.fix_missing_locations(tree)
    return compile(tree, path, "exec", dont_inherit=True)


class Loader(importlib.abc.Loader):
    def __init__(self, path, fullname):
        self.path, self.fullname = path, fullname

    def create_module(self, spec):
        return None

    def exec_module(self, module):
        import ctypes
        import struct

        with open(self.path, encoding="utf-8") as f:
            src = f.read()
        code = instrument(src, self.path, self.fullname)
        module.__dict__.update(HELPERS)
        from .shims import patched_functools

        with patched_functools():
            exec(code, module.__dict__)
        if module.__dict__.get("struct") is struct:
            module.__dict__["struct"] = SymStruct
        if module.__dict__.get("ctypes") is ctypes:
            module.__dict__["ctypes"] = SymCtypes
        if module.__dict__.get("ast") is ast:
            module.__dict__["ast"] = SymAst()
        import re

        if module.__dict__.get("re") is re:
            from .symre import SymRe

            from .symre import SymPattern
            from .core import Unmodelled

            module.__dict__["re"] = SymRe()

            def wrap(v):
                try:
                    return SymPattern(v)
                except Unmodelled:
                    return v

            # patterns compiled while the module body ran (class attributes, globals)
            for k, v in list(module.__dict__.items()):
                if isinstance(v, re.Pattern):
                    module.__dict__[k] = wrap(v)
                elif isinstance(v, type) and v.__module__ == module.__name__:
                    for ak, av in list(vars(v).items()):
                        if isinstance(av, re.Pattern):
                            setattr(v, ak, wrap(av))
        LOADED[self.fullname] = self.path


LOADED = {}


class Finder(importlib.abc.MetaPathFinder):
    def __init__(self, root, packages):
        self.root, self.packages = root, packages

    def find_spec(self, fullname, path, target=None):
        top = fullname.split(".")[0]
        if top not in self.packages:
            return None
        d = os.path.join(self.root, fullname.replace(".", "/"))
        if os.path.isdir(d) and os.path.exists(os.path.join(d, "__init__.py")):
            p = os.path.join(d, "__init__.py")
            return importlib.util.spec_from_file_location(
                fullname, p, loader=Loader(p, fullname), submodule_search_locations=[d]
            )
        p = d + ".py"
        if os.path.exists(p):
            return importlib.util.spec_from_file_location(fullname, p, loader=Loader(p, fullname))
        return None


def install(root=None, packages=("a816", "script")):
    root = root or os.environ.get("A816_REPO", "/repo")
    for f in sys.meta_path:
        if isinstance(f, Finder):
            return
    sys.meta_path.insert(0, Finder(root, packages))
    sys.dont_write_bytecode = True
