"""Models of the C-level entry points the instrumented code reaches (DESIGN.md section 4.2).

Every helper falls through to the native operation when no operand is symbolic."""
import builtins
import io
import struct as _struct

import z3

from . import core
from .core import SBool, SInt, SRatio, Unmodelled, W, bv, sbool
from .values import (
    SBlob,
    SBytes,
    SChoice,
    SEnum,
    SRope,
    SStr,
    contains,
    core_b,
    cterm,
    format_int,
    hex_digits,
    mkbytes,
    mkstr,
)

_SYM = (SInt, SStr, SBytes, SBlob, SRope, SChoice, SEnum, SBool)


# ---------------------------------------------------------------- struct
class SymStruct:
    error = _struct.error
    calcsize = staticmethod(_struct.calcsize)
    SIZES = {"B": 1, "b": 1, "H": 2, "h": 2, "I": 4, "i": 4, "L": 4, "l": 4}

    @staticmethod
    def _split(fmt):
        order = "@"
        codes = fmt
        if fmt and fmt[0] in "<>=!@":
            order, codes = fmt[0], fmt[1:]
        for c in codes:
            if c not in SymStruct.SIZES:
                raise Unmodelled(f"struct format {fmt!r}")
        if order == "@" and len(codes) > 1:
            raise Unmodelled(f"native-aligned struct format {fmt!r}")
        return order, codes

    @staticmethod
    def pack(fmt, *args):
        if not any(isinstance(a, _SYM) for a in args):
            return _struct.pack(fmt, *args)
        order, codes = SymStruct._split(fmt)
        if len(codes) != len(args):
            raise _struct.error(f"pack expected {len(codes)} items for packing (got {len(args)})")
        out = []
        for code, a in zip(codes, args):
            size = SymStruct.SIZES[code]
            if code.islower():
                lo, hi = -(1 << (8 * size - 1)), (1 << (8 * size - 1)) - 1
            else:
                lo, hi = 0, (1 << (8 * size)) - 1
            if not isinstance(a, (int, SInt)):
                raise _struct.error("required argument is not an integer")
            t = bv(a)
            al, ah = core._iv(a)
            if al is None or al < lo or ah > hi:
                if not core_b(sbool(z3.And(t >= lo, t <= hi))):
                    raise _struct.error(f"'{code}' format requires {lo} <= number <= {hi}")
            bs = []
            for k in range(size):
                if isinstance(a, int):
                    bs.append((a >> (8 * k)) & 0xFF)
                else:
                    bs.append(SInt(z3.simplify((t >> (8 * k)) & 0xFF), 0, 255))
            if order in ">!":
                bs.reverse()
            out += bs
        return mkbytes(out)

    @staticmethod
    def unpack(fmt, data):
        if not isinstance(data, SBytes):
            return _struct.unpack(fmt, data)
        order, codes = SymStruct._split(fmt)
        total = sum(SymStruct.SIZES[c] for c in codes)
        if len(data) != total:
            raise _struct.error(f"unpack requires a buffer of {total} bytes")
        out = []
        pos = 0
        for code in codes:
            size = SymStruct.SIZES[code]
            bs = list(data.b[pos: pos + size])
            pos += size
            if order in ">!":
                bs.reverse()
            v = 0
            for k, b in enumerate(bs):
                v = v | (b << (8 * k)) if k else b
            if code.islower():
                sign = 1 << (8 * size - 1)
                if isinstance(v, SInt):
                    v = SInt(z3.simplify(z3.If(v.t >= sign, v.t - (sign << 1), v.t)), -sign, sign - 1)
                elif v >= sign:
                    v -= sign << 1
            out.append(v)
        return tuple(out)


class _SymStructObj:
    """struct.Struct(fmt) as seen by instrumented modules (precompiled formats)."""

    def __init__(self, fmt):
        self.format = fmt
        self.size = _struct.calcsize(fmt)
        self._real = _struct.Struct(fmt)

    def pack(self, *args):
        return SymStruct.pack(self.format, *args)

    def unpack(self, data):
        return SymStruct.unpack(self.format, data)

    def unpack_from(self, data, offset=0):
        return SymStruct.unpack(self.format, data[offset: offset + self.size])

    def __getattr__(self, name):
        if name.startswith("__") or not hasattr(self._real if "_real" in self.__dict__ else _struct.Struct, name):
            raise AttributeError(name)       # probes by abc / dataclasses / copy
        raise Unmodelled(f"struct.Struct.{name}")


SymStruct.Struct = _SymStructObj
SymStruct.unpack_from = staticmethod(lambda fmt, data, offset=0: SymStruct.unpack(fmt, data[offset: offset + _struct.calcsize(fmt)]))


# ---------------------------------------------------------------- ctypes
class _CVal:
    def __init__(self, value):
        self.value = value


class _CUint:
    def __init__(self, bits):
        self.bits = bits

    def __call__(self, v=0):
        mask = (1 << self.bits) - 1
        if isinstance(v, SInt):
            return _CVal(SInt(z3.simplify(v.t & mask), 0, mask))
        return _CVal(v & mask)


class SymCtypes:
    c_uint8 = _CUint(8)
    c_uint16 = _CUint(16)
    c_uint32 = _CUint(32)


# ---------------------------------------------------------------- builtins
def s_isinstance(x, cls):
    if isinstance(x, _SYM):
        cl = cls if isinstance(cls, tuple) else (cls,)
        if isinstance(x, (SInt,)):
            return int in cl or object in cl
        if isinstance(x, SBool):
            return bool in cl or int in cl or object in cl
        if isinstance(x, SStr):
            return str in cl or object in cl
        if isinstance(x, (SBytes, SBlob, SRope)):
            return bytes in cl or object in cl
        if isinstance(x, SChoice):
            return any(isinstance(o, cl) for o in x.options[:1])
        if isinstance(x, SEnum):
            return any(isinstance(o, cl) for o in x.members[:1])
    from .values import SByteArray

    if isinstance(x, SByteArray):
        cl = cls if isinstance(cls, tuple) else (cls,)
        return bytearray in cl or object in cl
    return isinstance(x, cls)


def s_len(x):
    from .values import SByteArray

    if isinstance(x, SByteArray) and x.rope is not None:
        x = x.frozen()
    if isinstance(x, (SBlob, SRope)):
        return x.length
    return len(x)


def s_hex(x):
    if not isinstance(x, SInt):
        return hex(x)
    neg, ds = hex_digits(x)
    return mkstr(([45] if neg else []) + [48, 120] + ds)


def _exc_text(x):
    """str(exception) when the exception type inherits BaseException.__str__."""
    if isinstance(x, BaseException) and type(x).__str__ is BaseException.__str__ and len(x.args) == 1 and isinstance(x.args[0], _SYM):
        return s_str(x.args[0])
    return None


def s_str(x=""):
    if isinstance(x, SStr):
        return x
    r = _exc_text(x)
    if r is not None:
        return r
    if isinstance(x, SInt):
        return format_int(x, "")
    if isinstance(x, SChoice):
        return str(x.pick())
    try:
        return str(x)
    except TypeError:
        # __str__ of a /repo object returned a symbolic string
        t = type(x)
        return t.__str__(x)


def s_int(x=0, base=None):
    if isinstance(x, SInt):
        return x
    if isinstance(x, SBool):
        return SInt(bv(x), 0, 1)
    if isinstance(x, SRatio):
        # int(a / b): float division followed by truncation.  Modelled as exact truncating
        # division; the floating-point lemma that justifies it for the operand ranges and the
        # divisor found in the tree is discharged separately (C20).
        core.current().notes.append(("int_truediv", x.n, x.d))
        n, d = bv(x.n), bv(x.d)
        if core_b(sbool(d == 0)):
            raise ZeroDivisionError("division by zero")
        return SInt(z3.simplify(n / d))
    if isinstance(x, SChoice):
        return s_int(x.pick(), base) if base is not None else s_int(x.pick())
    if isinstance(x, SStr):
        b = 10 if base is None else base
        cs = x.c
        if b == 0:
            # base 0: the literal's own prefix selects the base
            body = cs[1:] if cs and core_b(mkstr((cs[0],)) in ("-", "+") if isinstance(mkstr((cs[0],)), str) else s_contains(mkstr((cs[0],)), ["-", "+"])) else cs
            if len(body) >= 2 and core_b(mkstr((body[0],)) == "0"):
                p2 = mkstr((body[1],)).lower()
                if core_b(p2 == "x"):
                    b = 16
                elif core_b(p2 == "b"):
                    b = 2
                elif core_b(p2 == "o"):
                    b = 8
                else:
                    raise Unmodelled("int(str, 0) with leading zero")
            else:
                b = 10
                if len(body) > 1 and core_b(mkstr((body[0],)) == "0"):
                    raise Unmodelled("int(str, 0) with leading zero")
        if b not in (2, 8, 10, 16):
            raise Unmodelled(f"int(str, {b})")
        if not cs:
            raise ValueError("invalid literal for int()")
        # optional sign
        neg = False
        first = mkstr((cs[0],))
        if core_b(first == "-"):
            neg, cs = True, cs[1:]
        elif core_b(first == "+"):
            cs = cs[1:]
        pre = {16: "x", 2: "b", 8: "o"}.get(b)
        if pre and len(cs) >= 2 and core_b(mkstr((cs[0],)) == "0") and core_b(mkstr((cs[1],)).lower() == pre):
            cs = cs[2:]
        if not cs:
            raise ValueError("invalid literal for int()")
        if len(cs) * {2: 1, 8: 3, 10: 4, 16: 4}[b] > 60:
            raise Unmodelled("int(str) longer than 60 bits")
        val = z3.BitVecVal(0, W)
        for ch in cs:
            if isinstance(ch, int):
                try:
                    d = int(chr(ch), b)
                except ValueError:
                    raise ValueError("invalid literal for int()") from None
                val = val * b + d
                continue
            t = ch
            allowed = frozenset(c for c in range(256) if chr(c).isascii() and chr(c).isalnum() and int(chr(c), 36) < b)
            if z3.is_const(t):
                ok = core_b(sbool(core.member_term(t, allowed), (t, allowed)))
            else:
                ok = core_b(sbool(core.member_term(t, allowed)))
            if not ok:
                # int() also accepts surrounding whitespace and '_' separators: not modelled
                ws = frozenset([9, 10, 11, 12, 13, 28, 29, 30, 31, 32, 0x85, 0xA0, 95])
                if core_b(sbool(core.member_term(t, ws), (t, ws) if z3.is_const(t) else None)):
                    raise Unmodelled("int(str) with whitespace/underscore")
                raise ValueError("invalid literal for int()")
            isdig = z3.ULE(t, 57)
            islo = z3.UGE(t, 97)
            d = z3.If(isdig, t - 48, z3.If(islo, t - 87, t - 55))
            val = val * b + z3.ZeroExt(W - 8, d)
        r = SInt(z3.simplify(val), 0, b ** len(cs) - 1)
        return -r if neg else r
    if base is None:
        return int(x)
    return int(x, base)


def s_range(*a):
    return range(*[core.concretize(x, limit=256) for x in a])


def _minmax(native, pick, a, k):
    """min / max over ints that may be symbolic; iterables are materialised exactly once."""
    if len(a) == 1:
        items = list(a[0])
        rest = (items,)
    else:
        items = list(a)
        rest = tuple(items)
    key = k.get("key")
    if not any(isinstance(x, _SYM) for x in items):
        return native(*rest, **k)
    if key is not None:
        raise Unmodelled("min/max(key=) with symbolic items")
    if not items:
        if "default" in k:
            return k["default"]
        raise ValueError("min()/max() iterable argument is empty")
    r = items[0]
    for x in items[1:]:
        (xl, xh), (rl, rh) = core._iv(x), core._iv(r)
        lo = hi = None
        if None not in (xl, xh, rl, rh):
            lo, hi = pick(xl, rl), pick(xh, rh)
        cond = bv(x) < bv(r) if pick is min else bv(x) > bv(r)
        r = SInt(z3.simplify(z3.If(cond, bv(x), bv(r))), lo, hi)
    return r


def s_min(*a, **k):
    return _minmax(min, min, a, k)


def s_max(*a, **k):
    return _minmax(max, max, a, k)


def s_divmod(a, b):
    if isinstance(a, _SYM) or isinstance(b, _SYM):
        return a // b, a % b
    return divmod(a, b)


def s_sum(items, start=0):
    items = list(items)
    if any(isinstance(x, _SYM) for x in items) or isinstance(start, _SYM):
        r = start
        for x in items:
            r = r + x
        return r
    return sum(items, start)


def s_abs(x):
    return abs(x)


def s_bytearray(x=b"", *a):
    from .values import SByteArray

    if a:
        return SByteArray(bytearray(x, *a))
    if isinstance(x, SInt):
        x = core.concretize(x, limit=70000)
    if isinstance(x, int):
        return SByteArray([0] * x)
    return SByteArray(SByteArray._items(x))


def s_bytes(x=b"", *a):
    from .values import SByteArray

    if isinstance(x, SByteArray):
        return x.frozen()
    if isinstance(x, (SBytes, SBlob, SRope)):
        return x
    if not a and not isinstance(x, (bytes, bytearray, str, int, list, tuple, SInt, SStr, memoryview)) and hasattr(x, "__iter__"):
        x = list(x)      # generator / map object: may yield symbolic ints
    if isinstance(x, (list, tuple)) and any(isinstance(i, SInt) for i in x):
        for i in x:
            lo, hi = core._iv(i)
            if lo is None or lo < 0 or hi > 255:
                if not core_b(sbool(z3.And(bv(i) >= 0, bv(i) <= 255))):
                    raise ValueError("bytes must be in range(0, 256)")
        return mkbytes(x)
    if isinstance(x, SInt):
        raise Unmodelled("bytes(SInt)")
    return bytes(x, *a)


def s_ord(x):
    if isinstance(x, SStr):
        if len(x.c) != 1:
            raise TypeError("ord() expected a character")
        ch = x.c[0]
        return ch if isinstance(ch, int) else SInt(z3.ZeroExt(W - 8, ch), 0, 255)
    return ord(x)


def s_chr(x):
    if isinstance(x, SInt):
        if not core_b(sbool(z3.And(x.t >= 0, x.t <= 255))):
            raise Unmodelled("chr() beyond Latin-1")
        return mkstr((z3.Extract(7, 0, x.t),))
    return chr(x)


def s_print(*a, **k):
    # output formatting is not the subject of any check; discarded (stub, DESIGN.md 4.2)
    return None


def s_bool(x=False):
    if isinstance(x, SBool):
        return bool(x)
    return bool(x)


def s_join(sep, items):
    items = list(items)
    if isinstance(sep, (bytes, bytearray)):
        if any(isinstance(i, (SBytes, SBlob, SRope)) for i in items):
            out = b""
            for n, it in enumerate(items):
                if n:
                    out = out + sep
                out = out + it
            return out
        return sep.join(items)
    if isinstance(sep, SStr) or any(isinstance(i, SStr) for i in items):
        return SStr.of(sep).join(items)
    return sep.join(items)


def s_fstr(*parts):
    out = []
    for p in parts:
        if isinstance(p, SStr):
            out += list(p.c)
        else:
            out += [ord(ch) for ch in p]
    return mkstr(out)


def s_format(v, spec, conv=-1):
    if conv == ord("r"):
        if isinstance(v, _SYM):
            raise Unmodelled("!r of symbolic value")
        v = repr(v)
    elif conv == ord("s"):
        v = s_str(v)
    if isinstance(v, SStr):
        if spec == "":
            return v
        raise Unmodelled(f"format(SStr, {spec!r})")
    if isinstance(v, SInt):
        return format_int(v, spec)
    if isinstance(v, SChoice):
        return format(v.pick(), spec)
    if spec == "":
        r = _exc_text(v)
        if r is not None:
            return r
    try:
        return format(v, spec)
    except TypeError:
        if spec != "":
            raise
        # __str__/__repr__ of a /repo object returned a symbolic string
        t = type(v)
        return t.__str__(v) if t.__str__ is not object.__str__ else t.__repr__(v)


def s_getitem(obj, key):
    if isinstance(key, SStr):
        if isinstance(obj, dict):
            n = len(key.c)
            for k in obj:
                if isinstance(k, str) and len(k) == n and core_b(key == k):
                    return obj[k]
            raise KeyError(key)
        if isinstance(obj, (list, tuple, str, bytes)):
            raise TypeError("indices must be integers")
        return obj[key]
    if isinstance(key, SInt):
        if isinstance(obj, dict):
            groups = {}
            for k, v in obj.items():
                if isinstance(k, int):
                    groups.setdefault(id(v), (v, []))[1].append(k)
            if key.lo is not None and key.hi - key.lo < 4096:
                cand = set(range(key.lo, key.hi + 1))
                for v, ks in groups.values():
                    if cand <= set(ks):
                        return v
                groups = {i: (v, [k for k in ks if k in cand]) for i, (v, ks) in groups.items()}
            glist = [(v, ks) for v, ks in groups.values() if ks]
            k = core.current().choose([core.int_member_term(key.t, ks) for _, ks in glist])
            if k < 0:
                raise KeyError(key)
            return glist[k][0]
        return obj[core.concretize(key, limit=256)]
    if isinstance(key, SBytes):
        if isinstance(obj, dict):
            n = len(key.b)
            for k in obj:
                if isinstance(k, (bytes, bytearray)) and len(k) == n and core_b(key == k):
                    return obj[k]
            raise KeyError(key)
        return obj[key]
    if isinstance(key, (SChoice, SEnum)):
        if isinstance(obj, dict):
            for k in obj:
                if core_b(key == k):
                    return obj[k]
            raise KeyError(key)
        return obj[key.pick()]
    return obj[key]


def s_dict_get(obj, *a):
    """obj.get(key[, default]) when obj may be a dict and key symbolic."""
    if isinstance(obj, dict) and a and isinstance(a[0], _SYM):
        try:
            return s_getitem(obj, a[0])
        except KeyError:
            return a[1] if len(a) > 1 else None
    return obj.get(*a)


def s_contains(item, cont):
    return core_b(contains(cont, item))


def s_b(x):
    return bool(x) if isinstance(x, SBool) else x


# ---------------------------------------------------------------- ticks / coverage
FUNCS = set()


def s_tick(name=None):
    if name is not None:
        FUNCS.add(name)
    e = core.ENGINE
    if e is not None:
        e.ticks += 1
        if e.max_ticks is not None and e.ticks > e.max_ticks:
            raise core.FuelExhausted()


# ---------------------------------------------------------------- virtual files
VFS = {}       # path -> str | bytes | SStr | SBytes  (readable)
VFS_OUT = {}   # path -> SymOutFile after it was opened for writing (register with None)


class SymOutFile:
    def __init__(self, name):
        self.name, self.ops = name, []

    def write(self, b):
        self.ops.append(("write", b))
        return s_len(b)

    def seek(self, a, whence=0):
        self.ops.append(("seek", a))
        return a

    def flush(self):
        pass

    def close(self):
        pass

    def __enter__(self):
        return self

    def __exit__(self, *a):
        return False


class SymInFile:
    """Readable virtual file over str / bytes / SStr / SBytes content."""

    def __init__(self, data):
        self.data, self.pos = data, 0

    def read(self, n=-1):
        if isinstance(n, SInt):
            rest = s_len(self.data) - self.pos
            if isinstance(rest, int) and bool(n >= rest):
                n = rest          # every count >= what is left reads the same bytes: one path for all of them
            else:
                n = core.concretize(n, limit=70000)
        if n is None or n < 0:
            r = self.data[self.pos:]
        else:
            r = self.data[self.pos: self.pos + n]
        self.pos = self.pos + s_len(r)
        return r

    def peek(self, n=0):
        return self.data[self.pos: self.pos + max(n, 1)] if n else self.data[self.pos:]

    def readlines(self):
        if isinstance(self.data, (SStr, SBytes)):
            raise Unmodelled("readlines on symbolic content")
        return io.StringIO(self.data).readlines() if isinstance(self.data, str) else io.BytesIO(self.data).readlines()

    def __iter__(self):
        return iter(self.readlines())

    def close(self):
        pass

    def __enter__(self):
        return self

    def __exit__(self, *a):
        return False


class SymAst:
    """`ast` as seen by instrumented modules: literal_eval of a symbolic choice picks the option."""

    def __getattr__(self, name):
        import ast

        return getattr(ast, name)

    @staticmethod
    def literal_eval(x):
        import ast

        if isinstance(x, SChoice):
            x = x.pick()
        if isinstance(x, SStr):
            raise Unmodelled("ast.literal_eval(SStr)")
        return ast.literal_eval(x)


def s_open(path, mode="r", *a, **k):
    if isinstance(path, SChoice):
        path = path.pick()
    if isinstance(path, SStr):
        raise Unmodelled("open(SStr)")
    p = str(path)
    if ("w" in mode or "a" in mode) and p in VFS_OUT:
        f = SymOutFile(p)
        VFS_OUT[p] = f
        return f
    if p in VFS and "w" not in mode:
        data = VFS[p]
        if "b" in mode and isinstance(data, (str, SStr)):
            data = data.encode("utf-8")
        if "b" not in mode and isinstance(data, bytes):
            # concrete bytes read as text: decoded as the real open() would (encoding / errors arguments, universal newlines)
            enc = k.get("encoding") or (a[1] if len(a) > 1 and a[1] else None) or "utf-8"
            data = data.decode(enc, k.get("errors") or "strict").replace("\r\n", "\n").replace("\r", "\n")
        if "b" not in mode and isinstance(data, SBytes):
            raise Unmodelled("text read of byte content")
        return SymInFile(data)
    return builtins.open(path, mode, *a, **k)


def s_int_from_bytes(data, byteorder="big", *, signed=False):
    if not isinstance(data, SBytes):
        return int.from_bytes(data, byteorder, signed=signed)
    bs = list(data.b)
    if byteorder not in ("little", "big") or len(bs) > 7:
        raise Unmodelled("int.from_bytes(%d bytes, %r)" % (len(bs), byteorder))
    if byteorder == "big":
        bs.reverse()
    v = 0
    for k, b in enumerate(bs):
        v = v | (b << (8 * k)) if k else b
    if signed and bs:
        sign = 1 << (8 * len(bs) - 1)
        v = (v ^ sign) - sign
    return v


_SHADOW_TYPES = None


def _has_shadow(x, depth=0):
    global _SHADOW_TYPES
    if _SHADOW_TYPES is None:
        from .values import SBlob, SRope

        _SHADOW_TYPES = (SInt, SBool, SStr, SBytes, SChoice, SEnum, SBlob, SRope)
    if isinstance(x, _SHADOW_TYPES):
        return True
    if depth < 3 and isinstance(x, (tuple, list, frozenset)):
        return any(_has_shadow(y, depth + 1) for y in x)
    return False


def sx_cached(real_decorator):
    """functools.cache / lru_cache as seen by instrumented modules: calls whose arguments hold a
    symbolic value bypass the memo table (a symbolic value has no hash; the table is keyed by
    concrete values only), every other call goes through the real cache."""
    import functools

    def deco(fn):
        cached = real_decorator(fn)

        @functools.wraps(fn)
        def wrapper(*a, **k):
            if any(_has_shadow(x) for x in a) or any(_has_shadow(x) for x in k.values()):
                return fn(*a, **k)
            return cached(*a, **k)

        wrapper.cache_clear = cached.cache_clear
        wrapper.cache_info = cached.cache_info
        wrapper.__wrapped__ = fn
        return wrapper

    return deco


def patched_functools():
    """Context manager: functools.cache / lru_cache replaced while an instrumented module body runs."""
    import contextlib
    import functools

    @contextlib.contextmanager
    def cm():
        real_cache, real_lru = functools.cache, functools.lru_cache

        def lru(maxsize=128, typed=False):
            if callable(maxsize) and isinstance(typed, bool):
                return sx_cached(real_lru(128, typed))(maxsize)
            return sx_cached(real_lru(maxsize, typed))

        functools.cache = sx_cached(real_cache)
        functools.lru_cache = lru
        try:
            yield
        finally:
            functools.cache, functools.lru_cache = real_cache, real_lru

    return cm()


HELPERS = {
    "_sx_bytearray": s_bytearray,
    "_sx_mod_struct": SymStruct,
    "_sx_int_from_bytes": s_int_from_bytes,
    "_sx_open": s_open,
    "_sx_contains": s_contains,
    "_sx_b": s_b,
    "_sx_isinstance": s_isinstance,
    "_sx_len": s_len,
    "_sx_hex": s_hex,
    "_sx_int": s_int,
    "_sx_str": s_str,
    "_sx_getitem": s_getitem,
    "_sx_range": s_range,
    "_sx_fstr": s_fstr,
    "_sx_format": s_format,
    "_sx_min": s_min,
    "_sx_max": s_max,
    "_sx_divmod": s_divmod,
    "_sx_sum": s_sum,
    "_sx_bytes": s_bytes,
    "_sx_ord": s_ord,
    "_sx_chr": s_chr,
    "_sx_print": s_print,
    "_sx_join": s_join,
    "_sx_tick": s_tick,
    "_sx_get": s_dict_get,
}

BUILTIN_MAP = {
    "bytearray": "_sx_bytearray",
    "open": "_sx_open",
    "isinstance": "_sx_isinstance",
    "len": "_sx_len",
    "hex": "_sx_hex",
    "int": "_sx_int",
    "str": "_sx_str",
    "range": "_sx_range",
    "min": "_sx_min",
    "max": "_sx_max",
    "divmod": "_sx_divmod",
    "sum": "_sx_sum",
    "bytes": "_sx_bytes",
    "ord": "_sx_ord",
    "chr": "_sx_chr",
    "print": "_sx_print",
}
