"""Symbolic matcher for the simple regexes of the tree, generated from re._parser.parse(pattern):
literals, classes, categories \\d \\s, + * ? {m,n}, groups (named or not), ^ $, alternation.
Backtracking in priority order like `re`; every character test forks through the engine."""
import re
import re._constants as sc
import re._parser as sp

import z3

from .core import ALL256, Unmodelled, member_term, sbool
from .values import SStr, core_b


def class_set(items):
    allowed, negate = set(), False
    for op, av in items:
        if op is sc.NEGATE:
            negate = True
        elif op is sc.LITERAL:
            allowed.add(av)
        elif op is sc.RANGE:
            allowed.update(range(av[0], av[1] + 1))
        elif op is sc.CATEGORY:
            if av is sc.CATEGORY_DIGIT:
                allowed.update(range(48, 58))
            elif av is sc.CATEGORY_SPACE:
                allowed.update(b" \t\n\r\f\v")
            elif av is sc.CATEGORY_WORD:
                allowed.update(c for c in range(128) if chr(c).isalnum() or c == 95)
            else:
                raise Unmodelled(f"regex category {av}")
        else:
            raise Unmodelled(f"regex class op {op}")
    allowed = {a for a in allowed if a < 256}
    return frozenset(ALL256 - allowed if negate else allowed)


def char_in(s, i, allowed):
    ch = s.c[i]
    if isinstance(ch, int):
        return ch in allowed
    if not allowed:
        return False
    dom = (ch, allowed) if z3.is_const(ch) else None
    return core_b(sbool(member_term(ch, allowed), dom))


class Match:
    def __init__(self, s, start, end, groups, names, ngroups):
        self.s, self.start_, self.end_, self.groups_, self.names, self.ngroups = s, start, end, groups, names, ngroups

    def _group(self, g=0):
        if g == 0:
            return self.s[self.start_: self.end_]
        if isinstance(g, str):
            if g not in self.names:
                raise IndexError("no such group")
            g = self.names[g]
        elif not 0 <= g <= self.ngroups:
            raise IndexError("no such group")
        if g not in self.groups_:
            return None
        a, b = self.groups_[g]
        return self.s[a:b]

    def group(self, *gs):
        if not gs:
            gs = (0,)
        vals = tuple(self._group(g) for g in gs)
        return vals[0] if len(vals) == 1 else vals

    __getitem__ = lambda self, g: self._group(g)  # noqa: E731

    def groups(self, default=None):
        return tuple(default if (v := self._group(i)) is None else v for i in range(1, self.ngroups + 1))

    def groupdict(self, default=None):
        return {k: (default if (v := self._group(i)) is None else v) for k, i in self.names.items()}

    def _span(self, g):
        if g == 0:
            return (self.start_, self.end_)
        if isinstance(g, str):
            g = self.names[g]
        return self.groups_.get(g, (-1, -1))

    def start(self, g=0):
        return self._span(g)[0]

    def end(self, g=0):
        return self._span(g)[1]

    def span(self, g=0):
        return self._span(g)

    @property
    def string(self):
        return self.s

    @property
    def lastindex(self):
        return max(self.groups_) if self.groups_ else None


class SymPattern:
    def __init__(self, real):
        self.real = real
        self.pattern = real.pattern
        self.flags = real.flags
        self.groupindex = real.groupindex
        self.groups = real.groups
        self.tree = sp.parse(real.pattern, real.flags)
        if real.flags & ~(re.UNICODE):
            raise Unmodelled(f"regex flags {real.flags}")

    def __getattr__(self, name):
        return getattr(self.real, name)

    def match(self, s, pos=0):
        if not isinstance(s, SStr):
            return self.real.match(s, pos)
        for end, groups in self._m(list(self.tree), s, pos, {}):
            return Match(s, pos, end, groups, dict(self.groupindex), self.groups)
        return None

    def search(self, s, pos=0):
        if not isinstance(s, SStr):
            return self.real.search(s, pos)
        for start in range(pos, len(s.c) + 1):
            for end, groups in self._m(list(self.tree), s, start, {}):
                return Match(s, start, end, groups, dict(self.groupindex), self.groups)
        return None

    def fullmatch(self, s, pos=0):
        if not isinstance(s, SStr):
            return self.real.fullmatch(s, pos)
        for end, groups in self._m(list(self.tree), s, pos, {}):
            if end == len(s.c):
                return Match(s, pos, end, groups, dict(self.groupindex), self.groups)
        return None

    def _m(self, items, s, i, groups):
        if not items:
            yield i, groups
            return
        (op, av), rest = items[0], items[1:]
        n = len(s.c)
        if op is sc.AT:
            if av is sc.AT_BEGINNING or av is sc.AT_BEGINNING_STRING:
                if i == 0:
                    yield from self._m(rest, s, i, groups)
            elif av is sc.AT_END_STRING:
                if i == n:
                    yield from self._m(rest, s, i, groups)
            elif av is sc.AT_END:
                if i == n or (i == n - 1 and char_in(s, i, frozenset([10]))):
                    yield from self._m(rest, s, i, groups)
            elif av in (sc.AT_BOUNDARY, sc.AT_NON_BOUNDARY):
                before = i > 0 and char_in(s, i - 1, WORDSET)
                after = i < n and char_in(s, i, WORDSET)
                if (before != after) == (av is sc.AT_BOUNDARY):
                    yield from self._m(rest, s, i, groups)
            else:
                raise Unmodelled(f"regex anchor {av}")
        elif op is sc.LITERAL:
            if i < n and char_in(s, i, frozenset([av]) if av < 256 else frozenset()):
                yield from self._m(rest, s, i + 1, groups)
        elif op is sc.NOT_LITERAL:
            if i < n and char_in(s, i, ALL256 - {av}):
                yield from self._m(rest, s, i + 1, groups)
        elif op is sc.ANY:
            if i < n and char_in(s, i, ALL256 - {10}):
                yield from self._m(rest, s, i + 1, groups)
        elif op is sc.IN:
            if i < n and char_in(s, i, class_set(av)):
                yield from self._m(rest, s, i + 1, groups)
        elif op is sc.SUBPATTERN:
            gid, add_flags, del_flags, sub = av
            if add_flags or del_flags:
                raise Unmodelled("regex inline flags")
            for e2, g2 in self._m(list(sub), s, i, groups):
                g3 = dict(g2)
                if gid is not None:
                    g3[gid] = (i, e2)
                yield from self._m(rest, s, e2, g3)
        elif op in (sc.MAX_REPEAT, sc.MIN_REPEAT):
            lo, hi, sub = av
            greedy = op is sc.MAX_REPEAT

            def rep(k, i, groups):
                can_stop = k >= lo
                if not greedy and can_stop:
                    yield i, groups
                if k < hi:
                    for e2, g2 in self._m(list(sub), s, i, groups):
                        if e2 == i:
                            continue
                        yield from rep(k + 1, e2, g2)
                if greedy and can_stop:
                    yield i, groups

            for e2, g2 in rep(0, i, groups):
                yield from self._m(rest, s, e2, g2)
        elif op is sc.BRANCH:
            for alt in av[1]:
                yield from self._m(list(alt) + rest, s, i, groups)
        elif op in (sc.ASSERT, sc.ASSERT_NOT):
            direction, sub = av
            if direction < 0:
                raise Unmodelled("regex lookbehind")
            found = False
            for _e2, g2 in self._m(list(sub), s, i, groups):
                found = True
                hit = g2
                break
            if op is sc.ASSERT and found:
                yield from self._m(rest, s, i, hit)
            elif op is sc.ASSERT_NOT and not found:
                yield from self._m(rest, s, i, groups)
        elif op is sc.GROUPREF:
            if av in groups:
                a, b = groups[av]
                k = b - a
                if i + k <= n and (k == 0 or bool(mk_eq(s, i, a, k))):
                    yield from self._m(rest, s, i + k, groups)
        else:
            raise Unmodelled(f"regex op {op}")


WORDSET = frozenset(c for c in range(256) if chr(c).isalnum() or c == 95)


def mk_eq(s, i, a, k):
    from .values import mkstr

    return mkstr(s.c[i: i + k]) == mkstr(s.c[a: a + k])


class SymRe:
    """`re` as seen by instrumented modules."""

    def __getattr__(self, name):
        return getattr(re, name)

    @staticmethod
    def compile(pattern, flags=0):
        real = re.compile(pattern, flags)
        try:
            return SymPattern(real)
        except Unmodelled:
            return real


def selftest():
    """Differential test of the matcher against `re` on concrete strings (run at start-up)."""
    pats = [r":(?!=)", r"[ \t]*(?:[;\n\0]|\Z)", r"(a|b)\1x", r"\bab\b ?c", r"a(?=b)b",
            r"^\[0x(?P<byte>[0-9a-fA-F]+)]", r"(?P<byte>[0-9a-fA-F]+)(?::(?P<ignore>[0-9a-fA-F]+))?\s*=(?P<text>[^\n]+)", r"a*b+?c{1,2}(x|yz)$"]
    vecs = [":=", ": ", ":", "  ;x", " \t", " x", "aax", "abx", "bbx", "ab c", "abc", "ab", "ac",
            "[0x1F]a", "[0x]", "[0xg1]", "x[0x11]", "[0x123]zz", "[0xab", "01=a", "0203:1 =bc\n", "=", "aabbcx", "bccyz", "abcx ", "bc"]
    for p in pats:
        real = re.compile(p)
        sym = SymPattern(real)
        for v in vecs:
            m1 = real.match(v)
            m2 = sym.match(SStr([ord(c) for c in v]))
            a = (m1.group(), m1.groups()) if m1 else None
            b = (m2.group(), m2.groups()) if m2 else None
            if a != b:
                raise AssertionError(f"regex shim mismatch {p!r} {v!r}: {a} vs {b}")
    return True
