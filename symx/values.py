"""Shadow strings, byte strings, blobs, enums / finite choices."""
import z3

from . import core
from .core import ALL256, SBool, SInt, Unmodelled, W, bv, member_term, sbool


def cterm(ch):
    return z3.BitVecVal(ch, 8) if isinstance(ch, int) else ch


def _is_sym_char(ch):
    return not isinstance(ch, int)


def mkstr(chars):
    chars = tuple(chars)
    for ch in chars:
        if not isinstance(ch, int):
            return SStr(chars)
    return "".join(map(chr, chars))


class SStr:
    """String of concrete length; each element is a code point (int) or a BitVec(8) term."""

    __slots__ = ("c",)

    def __init__(self, chars):
        self.c = tuple(chars)

    @staticmethod
    def of(x):
        if isinstance(x, SStr):
            return x
        if isinstance(x, str):
            return SStr([ord(ch) for ch in x])
        raise Unmodelled(f"SStr.of({type(x).__name__})")

    def __len__(self):
        return len(self.c)

    def __getitem__(self, i):
        if isinstance(i, slice):
            return mkstr(self.c[i])
        if isinstance(i, SInt):
            i = core.concretize(i)
        return mkstr((self.c[i],))

    def __iter__(self):
        for ch in self.c:
            yield mkstr((ch,))

    def __add__(self, o):
        if isinstance(o, (str, SStr)):
            return mkstr(self.c + SStr.of(o).c)
        return NotImplemented

    def __radd__(self, o):
        if isinstance(o, str):
            return mkstr(SStr.of(o).c + self.c)
        return NotImplemented

    def __mul__(self, n):
        return mkstr(self.c * n)

    def eq_term(self, o):
        if not isinstance(o, (str, SStr)):
            return z3.BoolVal(False)
        oc = SStr.of(o).c
        if len(oc) != len(self.c):
            return z3.BoolVal(False)
        cs = []
        for a, b in zip(self.c, oc):
            if isinstance(a, int) and isinstance(b, int):
                if a != b:
                    return z3.BoolVal(False)
            elif isinstance(b, int) and b > 255:
                return z3.BoolVal(False)
            elif isinstance(a, int) and a > 255:
                return z3.BoolVal(False)
            else:
                cs.append(cterm(a) == cterm(b))
        if not cs:
            return z3.BoolVal(True)
        return z3.And(*cs) if len(cs) > 1 else cs[0]

    def _single(self, o):
        if len(self.c) == 1 and _is_sym_char(self.c[0]) and isinstance(o, str) and len(o) == 1 and z3.is_const(self.c[0]):
            return self.c[0], (frozenset([ord(o)]) if ord(o) < 256 else frozenset())
        return None

    def __eq__(self, o):
        if not isinstance(o, (str, SStr)):
            return False
        sg = self._single(o)
        if sg:
            return sbool(member_term(*sg), sg) if sg[1] else False
        return sbool(self.eq_term(o))

    def __ne__(self, o):
        if not isinstance(o, (str, SStr)):
            return True
        sg = self._single(o)
        if sg:
            if not sg[1]:
                return True
            comp = (sg[0], ALL256 - sg[1])
            return sbool(member_term(*comp), comp)
        return sbool(z3.Not(self.eq_term(o)))

    def __hash__(self):
        raise Unmodelled("hash() of a symbolic value (dict/set key)")

    def lower(self):
        out = []
        for ch in self.c:
            if isinstance(ch, int):
                out.append(ord(chr(ch).lower()) if ch < 128 else ch)
            else:
                out.append(_lower_term(ch))
        return mkstr(out)

    def upper(self):
        out = []
        for ch in self.c:
            if isinstance(ch, int):
                out.append(ord(chr(ch).upper()) if ch < 128 else ch)
            else:
                out.append(z3.simplify(z3.If(z3.And(z3.UGE(ch, 97), z3.ULE(ch, 122)), ch - 32, ch)))
        return mkstr(out)

    def _window(self, start, end):
        n = len(self.c)
        if isinstance(start, SInt):
            start = core.concretize(start)
        if isinstance(end, SInt):
            end = core.concretize(end)
        a, b, _ = slice(start, end).indices(n)
        return a, max(a, b)

    def startswith(self, p, start=None, end=None):
        if isinstance(p, tuple):
            for q in p:
                if self.startswith(q, start, end):
                    return True
            return False
        p = SStr.of(p)
        a, b = self._window(start, end)
        if start is not None and (isinstance(start, int) and start > len(self.c)):
            return False
        if len(p.c) > b - a:
            return False
        if not p.c:
            return True
        return core_b(mkstr(self.c[a: a + len(p.c)]) == mkstr(p.c))

    def endswith(self, p, start=None, end=None):
        if isinstance(p, tuple):
            for q in p:
                if self.endswith(q, start, end):
                    return True
            return False
        p = SStr.of(p)
        a, b = self._window(start, end)
        if len(p.c) > b - a:
            return False
        if not p.c:
            return True
        return core_b(mkstr(self.c[b - len(p.c): b]) == mkstr(p.c))

    def find(self, sub, start=None, end=None):
        sub = SStr.of(sub)
        a, b = self._window(start, end)
        k = len(sub.c)
        for i in range(a, b - k + 1):
            if k == 0 or core_b(mkstr(self.c[i: i + k]) == mkstr(sub.c)):
                return i
        return -1

    def rfind(self, sub, start=None, end=None):
        sub = SStr.of(sub)
        a, b = self._window(start, end)
        k = len(sub.c)
        for i in range(b - k, a - 1, -1):
            if k == 0 or core_b(mkstr(self.c[i: i + k]) == mkstr(sub.c)):
                return i
        return -1

    def index(self, sub, start=None, end=None):
        i = self.find(sub, start, end)
        if i < 0:
            raise ValueError("substring not found")
        return i

    def rindex(self, sub, start=None, end=None):
        i = self.rfind(sub, start, end)
        if i < 0:
            raise ValueError("substring not found")
        return i

    def count(self, sub, start=None, end=None):
        sub = SStr.of(sub)
        a, b = self._window(start, end)
        k = len(sub.c)
        if k == 0:
            return b - a + 1
        n, i = 0, a
        while i <= b - k:
            if core_b(mkstr(self.c[i: i + k]) == mkstr(sub.c)):
                n += 1
                i += k
            else:
                i += 1
        return n

    def removeprefix(self, p):
        return self[len(SStr.of(p).c):] if self.startswith(p) else self

    def removesuffix(self, p):
        k = len(SStr.of(p).c)
        return self[: len(self.c) - k] if k and self.endswith(p) else self

    def _all(self, pred_concrete, pred_term):
        """str.isX(): true iff non-empty and every character satisfies the predicate (ASCII / Latin-1 semantics of the concrete str for concrete characters)."""
        if not self.c:
            return False
        for ch in self.c:
            if isinstance(ch, int):
                if not pred_concrete(chr(ch)):
                    return False
            elif not core_b(core.sbool(pred_term(ch))):
                return False
        return True

    @staticmethod
    def _set_term(ch, pred):
        codes = [k for k in range(256) if pred(chr(k))]
        return z3.Or(*[ch == k for k in codes]) if codes else z3.BoolVal(False)

    def isdigit(self):
        return self._all(str.isdigit, lambda ch: SStr._set_term(ch, str.isdigit))

    def isdecimal(self):
        return self._all(str.isdecimal, lambda ch: SStr._set_term(ch, str.isdecimal))

    def isalpha(self):
        return self._all(str.isalpha, lambda ch: SStr._set_term(ch, str.isalpha))

    def isalnum(self):
        return self._all(str.isalnum, lambda ch: SStr._set_term(ch, str.isalnum))

    def isspace(self):
        return self._all(str.isspace, lambda ch: SStr._set_term(ch, str.isspace))

    def isascii(self):
        for ch in self.c:
            if isinstance(ch, int):
                if ch > 127:
                    return False
            elif not core_b(core.sbool(z3.ULT(ch, 128))):
                return False
        return True

    def casefold(self):
        for ch in self.c:
            if not isinstance(ch, int) or ch > 127:
                raise Unmodelled("SStr.casefold on non-ASCII / symbolic text")
        return self.lower()

    def rsplit(self, sep=None, maxsplit=-1):
        if maxsplit < 0:
            return self.split(sep, maxsplit)
        if not isinstance(sep, str) or len(sep) != 1:
            raise Unmodelled("SStr.rsplit(sep) with non single-character separator")
        parts, cur, n = [], [], 0
        for ch in reversed(self.c):
            if n < maxsplit and core_b(mkstr((ch,)) == sep):
                parts.append(mkstr(list(reversed(cur))))
                cur = []
                n += 1
            else:
                cur.append(ch)
        parts.append(mkstr(list(reversed(cur))))
        return list(reversed(parts))

    def zfill(self, n):
        if len(self.c) >= n:
            return self
        if self.c and isinstance(self.c[0], int) and chr(self.c[0]) not in "+-":
            return mkstr([48] * (n - len(self.c)) + list(self.c))
        raise Unmodelled("SStr.zfill with a possible sign")

    def split(self, sep=None, maxsplit=-1):
        if not isinstance(sep, str) or len(sep) != 1:
            raise Unmodelled("SStr.split(sep) with non single-character separator")
        parts, cur, n = [], [], 0
        for ch in self.c:
            if (maxsplit < 0 or n < maxsplit) and core_b(mkstr((ch,)) == sep):
                parts.append(mkstr(cur))
                cur = []
                n += 1
            else:
                cur.append(ch)
        parts.append(mkstr(cur))
        return parts

    def partition(self, sep):
        if not isinstance(sep, str) or len(sep) != 1:
            raise Unmodelled("SStr.partition with non single-character separator")
        for i, ch in enumerate(self.c):
            if core_b(mkstr((ch,)) == sep):
                return mkstr(self.c[:i]), sep, mkstr(self.c[i + 1:])
        return self, "", ""

    def rpartition(self, sep):
        if not isinstance(sep, str) or len(sep) != 1:
            raise Unmodelled("SStr.rpartition with non single-character separator")
        for i in range(len(self.c) - 1, -1, -1):
            if core_b(mkstr((self.c[i],)) == sep):
                return mkstr(self.c[:i]), sep, mkstr(self.c[i + 1:])
        return "", "", self

    def replace(self, old, new):
        if not (isinstance(old, str) and isinstance(new, str) and len(old) == 1):
            raise Unmodelled("SStr.replace with multi-character pattern")
        out = []
        for ch in self.c:
            if core_b(mkstr((ch,)) == old):
                out += [ord(x) for x in new]
            else:
                out.append(ch)
        return mkstr(out)

    def encode(self, encoding="utf-8", errors="strict"):
        from .values import mkbytes  # self import ok

        if encoding.lower() not in ("ascii", "latin-1", "latin1", "utf-8", "utf8"):
            raise Unmodelled(f"encode({encoding})")
        out = []
        for ch in self.c:
            s1 = mkstr((ch,))
            if isinstance(ch, int):
                out += list(s1.encode(encoding, errors))
                continue
            is_ascii = core_b(sbool(member_term(ch, frozenset(range(128))), (ch, frozenset(range(128)))) if z3.is_const(ch) else sbool(z3.ULT(ch, 128)))
            if is_ascii:
                out.append(SInt(z3.ZeroExt(W - 8, ch), 0, 127))
            elif encoding.lower() == "ascii":
                if errors == "ignore":
                    continue
                if errors == "replace":
                    out.append(63)
                    continue
                raise UnicodeEncodeError("ascii", "?", 0, 1, "ordinal not in range(128)")
            elif encoding.lower() in ("latin-1", "latin1"):
                out.append(SInt(z3.ZeroExt(W - 8, ch), 128, 255))
            else:  # utf-8, 2-byte form for 0x80..0xFF
                out.append(SInt(z3.simplify(z3.ZeroExt(W - 8, (z3.LShR(ch, 6) | 0xC0))), 0xC2, 0xC3))
                out.append(SInt(z3.simplify(z3.ZeroExt(W - 8, ((ch & 0x3F) | 0x80))), 0x80, 0xBF))
        return mkbytes(out)

    def ljust(self, n, fill=" "):
        return mkstr(self.c + tuple([ord(fill)] * max(0, n - len(self.c))))

    def rjust(self, n, fill=" "):
        return mkstr(tuple([ord(fill)] * max(0, n - len(self.c))) + self.c)

    _WS = frozenset([9, 10, 11, 12, 13, 28, 29, 30, 31, 32, 0x85, 0xA0])

    def _is_ws(self, ch, chars):
        if chars is None:
            allowed = self._WS
        else:
            allowed = frozenset(ord(c) for c in chars if ord(c) < 256)
        if isinstance(ch, int):
            return ch in allowed
        return core_b(sbool(member_term(ch, allowed), (ch, allowed) if z3.is_const(ch) else None)) if allowed else False

    def lstrip(self, chars=None):
        c = list(self.c)
        while c and self._is_ws(c[0], chars):
            c.pop(0)
        return mkstr(c)

    def rstrip(self, chars=None):
        c = list(self.c)
        while c and self._is_ws(c[-1], chars):
            c.pop()
        return mkstr(c)

    def strip(self, chars=None):
        r = self.lstrip(chars)
        return r.rstrip(chars) if isinstance(r, SStr) else r.strip(chars)

    def expandtabs(self, tabsize=8):
        out, col = [], 0
        for ch in self.c:
            one = mkstr((ch,))
            if core_b(one == "\t"):
                n = tabsize - (col % tabsize) if tabsize > 0 else 0
                out += [32] * n
                col += n
            elif core_b(one == "\n") or core_b(one == "\r"):
                out.append(ch)
                col = 0
            else:
                out.append(ch)
                col += 1
        return mkstr(out)

    def splitlines(self, keepends=False):
        lines, cur = [], []
        for ch in self.c:
            one = mkstr((ch,))
            if core_b(one == "\n"):
                if keepends:
                    cur.append(ch)
                lines.append(mkstr(cur))
                cur = []
            elif isinstance(ch, int) and ch in (11, 12, 13, 28, 29, 30, 0x85):
                raise Unmodelled("splitlines on exotic line separators")
            else:
                if not isinstance(ch, int) and core_b(sbool(member_term(ch, frozenset([11, 12, 13, 28, 29, 30, 0x85])))):
                    raise Unmodelled("splitlines on exotic line separators")
                cur.append(ch)
        if cur:
            lines.append(mkstr(cur))
        return lines

    def __getattr__(self, name):
        # any str method the model does not implement: never an AttributeError the code could catch
        if hasattr(str, name):
            raise Unmodelled(f"SStr.{name}")
        raise AttributeError(name)

    def join(self, items):
        out = []
        first = True
        for it in items:
            if not first:
                out += list(self.c)
            out += list(SStr.of(it).c)
            first = False
        return mkstr(out)

    def __format__(self, spec):
        if spec == "":
            return self
        raise Unmodelled(f"format(SStr, {spec!r})")

    def __str__(self):
        # str(x) of an SStr must stay symbolic; a native str() call cannot return it.
        raise Unmodelled("str(SStr) via C")

    def __repr__(self):
        return "SStr(%s)" % "".join(chr(ch) if isinstance(ch, int) else "?" for ch in self.c)

    def __contains__(self, item):
        return core_b(contains(self, item))

    def __lt__(self, o):
        raise Unmodelled("SStr ordering")

    __le__ = __gt__ = __ge__ = __lt__


def _lower_term(ch):
    return z3.simplify(z3.If(z3.And(z3.UGE(ch, 65), z3.ULE(ch, 90)), ch + 32, ch))


def core_b(x):
    return bool(x) if isinstance(x, SBool) else x


def contains(container, item):
    """`item in container` where either side may be symbolic; returns bool or SBool."""
    if isinstance(item, SStr) and len(item.c) == 1 and _is_sym_char(item.c[0]) and z3.is_const(item.c[0]):
        allowed = None
        if isinstance(container, str):
            allowed = frozenset(ord(x) for x in container if ord(x) < 256)
        elif isinstance(container, (list, tuple, set, frozenset)) and all(isinstance(x, str) or x is None for x in container):
            allowed = frozenset(ord(x) for x in container if x is not None and len(x) == 1 and ord(x) < 256)
        if allowed is not None:
            if not allowed:
                return False
            dom = (item.c[0], allowed)
            return sbool(member_term(*dom), dom)
    if isinstance(item, (SChoice, SEnum)):
        return item.in_(container)
    if isinstance(item, SStr) or isinstance(container, SStr):
        if isinstance(container, (str, SStr)):
            cont = SStr.of(container)
            it = SStr.of(item)
            n, m = len(cont.c), len(it.c)
            if m == 0:
                return True
            terms = [SStr(cont.c[i: i + m]).eq_term(it) for i in range(0, n - m + 1)]
            return sbool(z3.Or(*terms)) if terms else False
        if not isinstance(item, (str, SStr)):
            return item in container
        it = SStr.of(item)
        terms = []
        for el in container:
            if isinstance(el, (str, SStr)):
                terms.append(it.eq_term(el))
        return sbool(z3.Or(*terms)) if terms else False
    if isinstance(item, SInt):
        if isinstance(container, range):
            if container.step == 1:
                return sbool(z3.And(item.t >= container.start, item.t < container.stop))
            raise Unmodelled("SInt in range with step")
        if isinstance(container, dict) or hasattr(container, "mapping"):
            ks = [k for k in container if isinstance(k, int)]
            return sbool(core.int_member_term(item.t, ks))
        terms = [item.t == bv(el) for el in container if isinstance(el, (int, SInt))]
        return sbool(z3.Or(*terms)) if terms else False
    if isinstance(container, (SBytes,)):
        raise Unmodelled("in SBytes")
    return item in container


# ---------------------------------------------------------------- bytes
def mkbytes(items):
    items = tuple(items)
    for i in items:
        if not isinstance(i, int):
            return SBytes(items)
    return bytes(items)


class SBytes:
    """Byte string of concrete length; elements are ints or SInt (value 0..255)."""

    __slots__ = ("b",)

    def __init__(self, items):
        self.b = tuple(items)

    def __len__(self):
        return len(self.b)

    def __add__(self, o):
        if isinstance(o, SBytes):
            return mkbytes(self.b + o.b)
        if isinstance(o, (bytes, bytearray)):
            return mkbytes(self.b + tuple(o))
        if isinstance(o, (SBlob, SRope)):
            return SRope([self]) + o
        return NotImplemented

    def __radd__(self, o):
        if isinstance(o, (bytes, bytearray)):
            return mkbytes(tuple(o) + self.b)
        return NotImplemented

    def __getitem__(self, i):
        if isinstance(i, slice):
            return mkbytes(self.b[i])
        if isinstance(i, SInt):
            i = core.concretize(i)
        return self.b[i]

    def __mul__(self, n):
        if isinstance(n, SInt):
            n = core.concretize(n, limit=70000)
        return mkbytes(self.b * n)

    __rmul__ = __mul__

    def __bool__(self):
        return len(self.b) > 0

    def __iter__(self):
        return iter(self.b)

    def eq_term(self, o):
        ob = tuple(o.b if isinstance(o, SBytes) else o)
        if len(ob) != len(self.b):
            return z3.BoolVal(False)
        cs = [bv(a) == bv(b) for a, b in zip(self.b, ob) if not (isinstance(a, int) and isinstance(b, int) and a == b)]
        for a, b in zip(self.b, ob):
            if isinstance(a, int) and isinstance(b, int) and a != b:
                return z3.BoolVal(False)
        return z3.And(*cs) if cs else z3.BoolVal(True)

    def __eq__(self, o):
        if not isinstance(o, (bytes, bytearray, SBytes)):
            return False
        return sbool(self.eq_term(o))

    def __ne__(self, o):
        if not isinstance(o, (bytes, bytearray, SBytes)):
            return True
        return sbool(z3.Not(self.eq_term(o)))

    def __hash__(self):
        raise Unmodelled("hash() of a symbolic value (dict/set key)")

    def decode(self, *a, **k):
        raise Unmodelled("SBytes.decode")

    def __getattr__(self, name):
        if hasattr(bytes, name):
            raise Unmodelled(f"SBytes.{name}")
        raise AttributeError(name)

    def __repr__(self):
        return "SBytes(%r)" % (self.b,)


class SByteArray:
    """bytearray as seen by instrumented modules: a mutable list of ints / SInt (0..255)."""

    __slots__ = ("b", "rope")

    def __init__(self, items=()):
        self.b = list(items)
        self.rope = None     # set once a file blob was appended: contents = rope + b (append-only from then on)

    def frozen(self):
        """Immutable value of the contents (bytes / SBytes / SRope)."""
        if self.rope is None:
            return mkbytes(self.b)
        return self.rope + mkbytes(self.b) if self.b else self.rope

    def _add_blob(self, o):
        self.rope = SRope([self.frozen(), o])
        self.b = []

    @staticmethod
    def _items(o):
        if isinstance(o, (SBytes, SByteArray)):
            return list(o.b)
        if isinstance(o, (bytes, bytearray)):
            return list(o)
        if isinstance(o, (SBlob, SRope)):
            raise Unmodelled("bytearray += file blob")
        out = []
        for x in o:
            SByteArray._check(x)
            out.append(x)
        return out

    @staticmethod
    def _check(x):
        if isinstance(x, SInt):
            if x.lo is None or x.lo < 0 or x.hi > 255:
                if not bool(sbool(z3.And(x.t >= 0, x.t <= 255))):
                    raise ValueError("byte must be in range(0, 256)")
        elif not isinstance(x, int):
            raise TypeError("an integer is required")
        elif not 0 <= x <= 255:
            raise ValueError("byte must be in range(0, 256)")

    def append(self, x):
        self._check(x)
        self.b.append(x)

    def extend(self, o):
        if isinstance(o, (SBlob, SRope)):
            self._add_blob(o)
        else:
            self.b.extend(self._items(o))

    def __iadd__(self, o):
        if not isinstance(o, (bytes, bytearray, SBytes, SByteArray, SBlob, SRope)):
            raise TypeError("can't concat %s to bytearray" % type(o).__name__)
        self.extend(o)
        return self

    def __add__(self, o):
        if not isinstance(o, (bytes, bytearray, SBytes, SByteArray)):
            return NotImplemented
        return SByteArray(self.b + self._items(o))

    def __radd__(self, o):
        if isinstance(o, (bytes, bytearray)):
            return mkbytes(list(o) + self.b)
        return NotImplemented

    def __len__(self):
        if self.rope is not None:
            return len(self.frozen())
        return len(self.b)

    def __bool__(self):
        if self.rope is not None:
            return bool(self.frozen())
        return len(self.b) > 0

    def __iter__(self):
        if self.rope is not None:
            raise Unmodelled("iteration over a bytearray holding a file blob")
        return iter(list(self.b))

    def __getitem__(self, i):
        if self.rope is not None:
            raise Unmodelled("indexing a bytearray holding a file blob")
        if isinstance(i, slice):
            return SByteArray(self.b[i])
        if isinstance(i, SInt):
            i = core.concretize(i)
        return self.b[i]

    def __setitem__(self, i, v):
        if isinstance(i, slice):
            self.b[i] = self._items(v)
            return
        if isinstance(i, SInt):
            i = core.concretize(i)
        self._check(v)
        self.b[i] = v

    def __delitem__(self, i):
        del self.b[i]

    def clear(self):
        self.b.clear()

    def __mul__(self, n):
        if isinstance(n, SInt):
            n = core.concretize(n, limit=70000)
        return SByteArray(self.b * n)

    __rmul__ = __mul__

    def __eq__(self, o):
        if not isinstance(o, (bytes, bytearray, SBytes, SByteArray)):
            return False
        return mkbytes(self.b) == (mkbytes(o.b) if isinstance(o, SByteArray) else o)

    def __ne__(self, o):
        r = self.__eq__(o)
        return (not r) if isinstance(r, bool) else sbool(z3.Not(r.t))

    def __hash__(self):
        raise TypeError("unhashable type: 'bytearray'")

    def __getattr__(self, name):
        if hasattr(bytearray, name):
            raise Unmodelled(f"bytearray.{name}")
        raise AttributeError(name)

    def __repr__(self):
        return "SByteArray(%r)" % (self.b,)


class SBlob:
    """`content[start : start+length]` of a named, unconstrained byte source with symbolic
    start and length: a block of thousands of bytes costs one term."""

    __slots__ = ("name", "start", "length")

    def __init__(self, name, start, length):
        self.name, self.start, self.length = name, start, length

    def _clamp(self, x):
        """min(max(x,0), length) for x >= 0 (Python slice clamping; negatives unmodelled)."""
        if isinstance(x, SInt) or isinstance(self.length, SInt):
            lo, _ = core._iv(x)
            if lo is None or lo < 0:
                if core_b(sbool(bv(x) < 0)):
                    raise Unmodelled("negative slice index on blob")
            xt, lt = bv(x), bv(self.length)
            (xl, xh), (ll, lh) = core._iv(x), core._iv(self.length)
            lo = hi = None
            if None not in (xl, xh, ll, lh):
                lo, hi = min(xl, ll), min(xh, lh)
            return SInt(z3.simplify(z3.If(xt < lt, xt, lt)), lo, hi)
        if x < 0:
            raise Unmodelled("negative slice index on blob")
        return min(x, self.length)

    def __getitem__(self, sl):
        if not isinstance(sl, slice) or sl.step is not None:
            raise Unmodelled("blob indexing")
        a = self._clamp(0 if sl.start is None else sl.start)
        b = self.length if sl.stop is None else self._clamp(sl.stop)
        n = b - a
        if isinstance(n, SInt):
            lo, hi = n.lo, n.hi
            n = SInt(z3.simplify(z3.If(n.t < 0, z3.BitVecVal(0, W), n.t)), None if lo is None else max(lo, 0), None if hi is None else max(hi, 0))
        else:
            n = max(0, n)
        return SBlob(self.name, self.start + a, n)

    def __bool__(self):
        return bool(self.length > 0)

    def __len__(self):
        if isinstance(self.length, SInt):
            raise Unmodelled("len(blob) via C")
        return self.length

    def __add__(self, o):
        return SRope([self]) + o

    def __radd__(self, o):
        return SRope([o]) + self

    def __hash__(self):
        raise Unmodelled("hash() of a symbolic value (dict/set key)")

    def __repr__(self):
        return f"SBlob({self.name},{self.start},{self.length})"


class SRope:
    """Concatenation of byte strings and blobs (no slicing)."""

    def __init__(self, segs):
        self.segs = []
        for s in segs:
            if isinstance(s, SRope):
                self.segs += s.segs
            elif isinstance(s, (bytes, bytearray)):
                if s:
                    self.segs.append(bytes(s))
            elif isinstance(s, (SBytes, SBlob)):
                self.segs.append(s)
            else:
                raise Unmodelled(f"rope of {type(s).__name__}")

    def __add__(self, o):
        if isinstance(o, (bytes, bytearray, SBytes, SBlob, SRope)):
            return SRope(self.segs + [o])
        return NotImplemented

    def __radd__(self, o):
        if isinstance(o, (bytes, bytearray, SBytes, SBlob)):
            return SRope([o] + self.segs)
        return NotImplemented

    @property
    def length(self):
        n = 0
        for s in self.segs:
            n = n + (s.length if isinstance(s, SBlob) else len(s))
        return n

    def __bool__(self):
        return bool(self.length > 0)

    def __len__(self):
        n = self.length
        if isinstance(n, SInt):
            raise Unmodelled("len(rope) via C")
        return n

    def __getitem__(self, i):
        raise Unmodelled("rope indexing")

    def __hash__(self):
        raise Unmodelled("hash() of a symbolic value (dict/set key)")

    def __repr__(self):
        return f"SRope({self.segs})"


# ---------------------------------------------------------------- finite choices
class SChoice:
    """Symbolic choice among a finite pool of concrete values (strings, bools, ...)."""

    def __init__(self, options, t):
        self.options, self.t = list(options), t

    def _eq_term(self, o):
        idx = [i for i, p in enumerate(self.options) if type(p) is type(o) and p == o]
        if not idx:
            return z3.BoolVal(False)
        return z3.Or(*[self.t == i for i in idx]) if len(idx) > 1 else self.t == idx[0]

    def __eq__(self, o):
        if isinstance(o, (SChoice,)):
            raise Unmodelled("SChoice == SChoice")
        return sbool(self._eq_term(o))

    def __ne__(self, o):
        return sbool(z3.Not(self._eq_term(o)))

    def in_(self, container):
        terms = [self._eq_term(x) for x in container]
        return sbool(z3.Or(*terms)) if terms else False

    def lower(self):
        return SChoice([o.lower() if isinstance(o, str) else o for o in self.options], self.t)

    def __getitem__(self, i):
        return SChoice([o[i] for o in self.options], self.t)

    def __len__(self):
        return len(self.pick())

    def pick(self):
        """Fork: return the concrete option."""
        for i, o in enumerate(self.options[:-1]):
            if core_b(sbool(self.t == i)):
                return o
        return self.options[-1]

    def __bool__(self):
        return bool(self.pick())

    def __hash__(self):
        raise Unmodelled("hash() of a symbolic value (dict/set key)")

    def __format__(self, spec):
        return format(self.pick(), spec)

    def __repr__(self):
        return "SChoice(%r)" % (self.options,)


class SEnum:
    """Symbolic member of an Enum class."""

    def __init__(self, members, t):
        self.members, self.t = list(members), t

    def _eq_term(self, o):
        if o in self.members:
            return self.t == self.members.index(o)
        return z3.BoolVal(False)

    def __eq__(self, o):
        return sbool(self._eq_term(o))

    def __ne__(self, o):
        return sbool(z3.Not(self._eq_term(o)))

    def in_(self, container):
        terms = [self._eq_term(x) for x in container]
        return sbool(z3.Or(*terms)) if terms else False

    def pick(self):
        for i, o in enumerate(self.members[:-1]):
            if core_b(sbool(self.t == i)):
                return o
        return self.members[-1]

    def __hash__(self):
        raise Unmodelled("hash() of a symbolic value (dict/set key)")

    def __format__(self, spec):
        return "<enum>"

    def __repr__(self):
        return "SEnum"


# ---------------------------------------------------------------- int formatting
def _digits(x, base, n):
    """n digits (most significant first) of non-negative SInt x in base 16 / 2 / 8."""
    shift = {16: 4, 2: 1, 8: 3}[base]
    out = []
    for k in range(n - 1, -1, -1):
        d = z3.Extract(7, 0, z3.LShR(x.t, shift * k) & (base - 1))
        out.append(z3.simplify(z3.If(z3.ULT(d, 10), d + 48, d + 87)))
    return out


def hex_digits(x):
    """(neg, digit terms) of hex(x) for an SInt; forks on the digit count."""
    neg = core_b(x < 0)
    a = -x if neg else x
    n = 1
    while not core_b(a < (1 << (4 * n))):
        n += 1
        if n > 15:
            raise Unmodelled("hex of > 60 bit value")
    return neg, _digits(a, 16, n)


def dec_digits(x):
    neg = core_b(x < 0)
    a = -x if neg else x
    n = 1
    while not core_b(a < 10 ** n):
        n += 1
        if n > 18:
            raise Unmodelled("decimal > 18 digits")
    out = []
    for k in range(n - 1, -1, -1):
        d = z3.Extract(7, 0, z3.URem(z3.UDiv(a.t, z3.BitVecVal(10 ** k, W)), z3.BitVecVal(10, W)))
        out.append(z3.simplify(d + 48))
    return neg, out


def format_int(x, spec):
    """format(SInt, spec) for the specs the tree uses: '', 'd', 'x', 'X', 'Nx', '0Nx'."""
    if spec in ("", "d"):
        neg, ds = dec_digits(x)
        return mkstr(([45] if neg else []) + ds)
    fill, width, kind = " ", 0, spec[-1]
    body = spec[:-1]
    if kind not in "xX":
        raise Unmodelled(f"format(SInt, {spec!r})")
    if body.startswith("0") and len(body) > 1:
        fill = "0"
        body = body[1:]
    elif body == "0":
        body = ""
    if body:
        if not body.isdigit():
            raise Unmodelled(f"format(SInt, {spec!r})")
        width = int(body)
    neg, ds = hex_digits(x)
    s = mkstr(ds)
    if kind == "X":
        s = s.upper() if isinstance(s, SStr) else s.upper()
    chars = list(SStr.of(s).c)
    pad = max(0, width - len(chars) - (1 if neg else 0))
    if fill == "0":
        chars = ([45] if neg else []) + [48] * pad + chars
    else:
        chars = [32] * pad + ([45] if neg else []) + chars
    return mkstr(chars)
