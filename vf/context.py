"""Harness context: declares the symbolic holes of a job and hands them to the harness either as
shadow values (symbolic mode, instrumented code) or as plain Python values (concrete mode,
un-instrumented code: cross-check and replay)."""
import ast
import hashlib

import z3

W = 64


class AssumptionFailed(Exception):
    pass


def blob_content(name, n):
    """Deterministic content of the named blob (concrete stand-in for an unconstrained source)."""
    seed = hashlib.sha256(name.encode()).digest()
    out = bytearray(n)
    x = int.from_bytes(seed[:4], "little") | 1
    for i in range(n):
        x = (x * 1103515245 + 12345) & 0x7FFFFFFF
        out[i] = (x >> 16) & 0xFF
    return bytes(out)


class Ctx:
    def __init__(self, symbolic, values=None, engine=None):
        self.symbolic = symbolic
        self.values = dict(values or {})
        self.engine = engine
        self.decl = {}  # name -> (kind, z3 term, meta)
        self.order = []

    # ---- declarations -------------------------------------------------------------
    def _declare(self, name, kind, term, meta):
        if name in self.decl:
            raise RuntimeError(f"hole {name} declared twice")
        self.decl[name] = (kind, term, meta)
        self.order.append(name)

    def int(self, name, lo, hi):
        """Integer hole with lo <= v <= hi."""
        if self.symbolic:
            import symx

            k = (hi + 1).bit_length() - 1
            if lo == 0 and hi > 0 and hi + 1 == 1 << k and k < W:
                # structural encoding: a k-bit variable zero-extended (no range constraint needed,
                # and the solver sees the high bits as constants)
                v = z3.BitVec(name, k)
                t = z3.ZeroExt(W - k, v)
                self.engine.keep.append(v)
                self._declare(name, "int", t, (lo, hi))
                return symx.SInt(t, lo, hi)
            t = z3.BitVec(name, W)
            self._declare(name, "int", t, (lo, hi))
            self.engine.add(t >= lo, t <= hi)
            return symx.SInt(t, lo, hi)
        v = int(self.values.get(name, lo))
        if not lo <= v <= hi:
            raise AssumptionFailed(f"{name}={v} outside [{lo},{hi}]")
        self._declare(name, "int", z3.BitVecVal(v, W), (lo, hi))
        self.values[name] = v
        return v

    def char(self, name, allowed=None):
        """8-bit character hole; returns a code point (concrete) or a BitVec(8) term."""
        if self.symbolic:
            t = z3.BitVec(name, 8)
            self._declare(name, "char", t, None if allowed is None else sorted(allowed))
            if allowed is not None:
                allowed = frozenset(allowed)
                self.engine.keep.append(t)
                self.engine.init_domains[t.get_id()] = allowed
                self.engine.domains[t.get_id()] = allowed
                import symx

                term = symx.member_term(t, allowed)
                self.engine.solver.add(term)
                self.engine.pc.append(term)
                self.engine.model = None
            return t
        default = min(allowed) if allowed else 0x20
        v = int(self.values.get(name, default))
        if allowed is not None and v not in allowed:
            raise AssumptionFailed(f"{name}={v} not allowed")
        self._declare(name, "char", z3.BitVecVal(v, 8), None)
        self.values[name] = v
        return v

    def bool(self, name):
        if self.symbolic:
            import symx

            t = z3.Bool(name)
            self._declare(name, "bool", t, None)
            return symx.SBool(t)
        v = bool(self.values.get(name, False))
        self._declare(name, "bool", z3.BoolVal(v), None)
        self.values[name] = v
        return v

    def choice(self, name, options):
        options = list(options)
        if self.symbolic:
            import symx

            t = z3.BitVec(name, 8)
            self._declare(name, "choice", t, options)
            self.engine.add(z3.ULT(t, len(options)))
            return symx.SChoice(options, t)
        i = int(self.values.get(name, 0))
        self._declare(name, "choice", z3.BitVecVal(i, 8), options)
        self.values[name] = i
        return options[i]

    def string(self, chars):
        """Build a str / SStr from code points and char holes."""
        if self.symbolic:
            import symx

            return symx.mkstr(chars)
        return "".join(chr(c) for c in chars)

    def bytes_(self, items):
        if self.symbolic:
            import symx

            return symx.mkbytes([symx.SInt(z3.ZeroExt(W - 8, i), 0, 255) if z3.is_bv(i) else i for i in items])
        return bytes(items)

    def blob(self, name, length):
        """Byte string of (possibly symbolic) length with unconstrained content."""
        if self.symbolic:
            import symx

            return symx.SBlob(name, 0, length)
        return blob_content(name, length)

    # ---- use in oracles -----------------------------------------------------------
    def t(self, name):
        """z3 term of a declared hole (a constant in concrete mode)."""
        return self.decl[name][1]

    def assume(self, term):
        if self.symbolic:
            self.engine.add(term)
        else:
            if isinstance(term, bool):
                ok = term
            else:
                ok = z3.is_true(z3.simplify(term))
            if not ok:
                raise AssumptionFailed(str(term))

    def implied(self, cond):
        """True / False when the path condition decides `cond`, else None (oracle simplification only:
        the final assertion is still discharged against the complete path condition)."""
        if not self.symbolic:
            v = z3.simplify(cond)
            return True if z3.is_true(v) else False if z3.is_false(v) else None
        e = self.engine
        if e.check(z3.Not(cond)) == z3.unsat:
            return True
        if e.check(cond) == z3.unsat:
            return False
        return None

    def values_of(self, model):
        """Concrete values of all holes under a model."""
        out = {}
        for name in self.order:
            kind, t, _ = self.decl[name]
            v = model.eval(t, model_completion=True)
            if kind == "int":
                out[name] = v.as_signed_long()
            elif kind == "bool":
                out[name] = z3.is_true(v)
            else:
                out[name] = v.as_long()
        return out

    # ---- region expressions of known findings -------------------------------------
    def region(self, expr):
        """Tiny expression language over hole names -> z3 Bool (known_findings.json `where`)."""
        tree = ast.parse(expr, mode="eval").body
        return self._ev(tree)

    def _ev(self, n):
        if isinstance(n, ast.BoolOp):
            vs = [self._ev(v) for v in n.values]
            return z3.And(*vs) if isinstance(n.op, ast.And) else z3.Or(*vs)
        if isinstance(n, ast.UnaryOp) and isinstance(n.op, ast.Not):
            return z3.Not(self._ev(n.operand))
        if isinstance(n, ast.UnaryOp) and isinstance(n.op, ast.USub):
            return -self._ev(n.operand)
        if isinstance(n, ast.Compare):
            left = self._ev(n.left)
            cs = []
            for op, r in zip(n.ops, n.comparators):
                right = self._ev(r)
                cs.append(
                    {
                        ast.Eq: lambda a, b: a == b,
                        ast.NotEq: lambda a, b: a != b,
                        ast.Lt: lambda a, b: a < b,
                        ast.LtE: lambda a, b: a <= b,
                        ast.Gt: lambda a, b: a > b,
                        ast.GtE: lambda a, b: a >= b,
                    }[type(op)](left, right)
                )
                left = right
            return z3.And(*cs) if len(cs) > 1 else cs[0]
        if isinstance(n, ast.BinOp):
            a, b = self._ev(n.left), self._ev(n.right)
            return {
                ast.Add: lambda: a + b,
                ast.Sub: lambda: a - b,
                ast.Mult: lambda: a * b,
                ast.BitAnd: lambda: a & b,
                ast.BitOr: lambda: a | b,
                ast.RShift: lambda: a >> b,
                ast.LShift: lambda: a << b,
            }[type(n.op)]()
        if isinstance(n, ast.Constant):
            if isinstance(n.value, bool):
                return z3.BoolVal(n.value)
            return z3.BitVecVal(n.value, W)
        if isinstance(n, ast.Name):
            if n.id not in self.decl:
                raise KeyError(n.id)
            kind, t, _ = self.decl[n.id]
            if kind in ("char", "choice"):
                return z3.ZeroExt(W - 8, t)
            return t
        raise ValueError(f"unsupported region expression node {ast.dump(n)}")
