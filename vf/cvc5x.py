"""Second solver: re-discharge sampled final queries with the cvc5 binary (thorough tier)."""
import os
import shutil
import subprocess
import tempfile

import z3


def recheck(pc, extra, timeout_s=20):
    """Returns 'unsat' | 'sat' | 'unknown' | 'unavailable' for And(pc) ∧ And(extra)."""
    exe = shutil.which("cvc5")
    if exe is None:
        return "unavailable"
    s = z3.Solver()
    s.add(*pc)
    s.add(*extra)
    text = "(set-logic ALL)\n" + s.to_smt2()
    fd, path = tempfile.mkstemp(prefix="a816verif-", suffix=".smt2")
    try:
        with os.fdopen(fd, "w") as f:
            f.write(text)
        try:
            r = subprocess.run([exe, "--lang=smt2", f"--tlimit={timeout_s * 1000}", path], capture_output=True, text=True, timeout=timeout_s + 10)
        except subprocess.TimeoutExpired:
            return "unknown"
        out = r.stdout.strip().splitlines()
        if "(error" in r.stdout or "(error" in r.stderr:
            return "unknown"
        for line in out:
            if line.strip() in ("sat", "unsat", "unknown"):
                return line.strip()
        return "unknown"
    finally:
        try:
            os.unlink(path)
        except OSError:
            pass
