"""./bin/check <ID> --tier quick|thorough | --replay <file>"""
import argparse
import hashlib
import importlib
import json
import multiprocessing as mp
import os
import sys
import time

HERE = os.path.dirname(os.path.dirname(os.path.abspath(__file__)))


def load_known():
    p = os.path.join(HERE, "known_findings.json")
    if not os.path.exists(p):
        return []
    with open(p) as f:
        return json.load(f).get("findings", [])


def replay(prop, path):
    from vf import plain

    plain.setup_paths()
    import logging

    logging.disable(logging.CRITICAL)
    with open(path) as f:
        rp = json.load(f)
    r = plain.run_concrete(rp["harness"], rp["spec"], rp["values"], rp.get("timeout", 20.0))
    h = importlib.import_module("harness." + rp["harness"])
    extra = getattr(h, "replay_extra", None)
    print(json.dumps({"values": r.get("values"), "observed": r.get("out"), "failed": r.get("failed"), "timeout": r.get("timeout"), "error": r.get("error")}, indent=1)[:4000])
    if extra is not None:
        print("process-level replay:", extra(rp["spec"], rp["values"]))
    if r.get("failed"):
        print(f"VIOLATION property={prop} replay={path}")
        return 1
    print("replay: property holds on this input (not reproduced)")
    return 0


def main(argv=None):
    ap = argparse.ArgumentParser()
    ap.add_argument("property")
    ap.add_argument("--tier", default=os.environ.get("VERIF_TIER", "quick"), choices=["quick", "thorough"])
    ap.add_argument("--replay")
    ap.add_argument("--jobs", type=int, default=int(os.environ.get("VERIF_JOBS", "0")) or min(16, os.cpu_count() or 1))
    ap.add_argument("--only", help="fnmatch pattern on job ids (debugging; evidence then says partial)")
    ap.add_argument("--no-evidence", action="store_true")
    args = ap.parse_args(argv)
    prop = args.property
    if args.replay:
        return replay(prop, args.replay)
    seed = int(os.environ.get("VERIF_SEED", "0") or 0)
    t0 = time.time()
    sys.path.insert(0, HERE)
    h = importlib.import_module("harness." + prop)
    jobs = h.jobs(args.tier, seed)
    if args.only:
        import fnmatch

        jobs = [j for j in jobs if fnmatch.fnmatchcase(j["id"], args.only)]
    known = [k for k in load_known() if k.get("property") == prop]
    opts = dict(getattr(h, "OPTS", {}).get(args.tier, {}))
    opts["known"] = known
    if args.tier == "thorough" and "cvc5" not in opts:
        opts["cvc5"] = True
    from vf.symjob import init_worker, run_job

    results = []
    pre = getattr(h, "preflight", None)
    pre_res = pre(args.tier) if pre else None
    ctx = mp.get_context("spawn")
    work = [(prop, j, opts) for j in jobs]
    nproc = max(1, min(args.jobs, len(work)))
    if nproc == 1 and not opts.get("fresh_process"):
        for w in work:
            results.append(run_job(w))
    else:
        with ctx.Pool(nproc, initializer=init_worker, maxtasksperchild=1 if opts.get("fresh_process") else None) as pool:
            for r in pool.imap_unordered(run_job, work, chunksize=1):
                results.append(r)
    results.sort(key=lambda r: r["id"])
    wall = time.time() - t0
    return report(prop, h, args, seed, jobs, results, known, pre_res, wall)


def report(prop, h, args, seed, jobs, results, known, pre_res, wall):
    os.makedirs(os.path.join(HERE, "replays"), exist_ok=True)
    violations, inconclusive, known_hits = [], [], {}
    for r in results:
        for v in r["violations"]:
            violations.append((r["id"], v))
        for i in r["inconclusive"]:
            inconclusive.append((r["id"], i))
        for k in r["known_hits"]:
            known_hits.setdefault(k["entry"], (r["id"], k))
    if pre_res:
        for i in pre_res.get("inconclusive", []):
            inconclusive.append(("preflight", i))
        for v in pre_res.get("violations", []):
            violations.append(("preflight", v))
    spec_by_id = {j["id"]: j for j in jobs}
    lines = []
    seen = set()
    for jid, v in violations:
        key = (jid, v["label"])
        if key in seen:
            continue
        seen.add(key)
        if len(lines) >= int(os.environ.get("VERIF_MAXREPORT", "10")):
            break
        rp = {
            "property": prop, "harness": prop, "spec": spec_by_id.get(jid, {"id": jid}), "values": v["values"],
            "failed_assertion": v["label"], "observed": v.get("observed"), "timeout": 20.0,
        }
        hsh = hashlib.sha1(json.dumps([jid, v["label"], v["values"]], sort_keys=True).encode()).hexdigest()[:10]
        path = os.path.join(HERE, "replays", f"{prop}-{hsh}.json")
        with open(path, "w") as f:
            json.dump(rp, f, indent=1)
        lines.append((jid, v, path))
    for k in known:
        if k.get("status") != "known":
            continue
        if k["id"] in known_hits:
            print(f"KNOWN-FINDING: property={prop} {k['what']} [entry {k['id']}; reproduced in job {known_hits[k['id']][0]} with {json.dumps(known_hits[k['id']][1]['values'])[:200]}]")
        else:
            print(f"KNOWN-FINDING: property={prop} {k['what']} [entry {k['id']}; not reproduced by this run]")
    funcs = set()
    for r in results:
        funcs.update(r.get("functions", []))
    tot = lambda key: sum(r[key] for r in results)  # noqa: E731
    samples = []
    for r in results:
        samples += r["samples"][:1]
        if len(samples) >= 6:
            break
    meta = getattr(h, "META", {})
    degraded = sum(len(r["degraded"]) for r in results)
    outcomes = {}
    for r in results:
        for k, v in r.get("outcomes", {}).items():
            outcomes[k] = outcomes.get(k, 0) + v
    ev = {
        "property_id": prop,
        "tier": args.tier,
        "seed": seed,
        "level": "model_checking",
        "coverage": {
            "states": tot("paths"),
            "transitions": max(tot("decisions"), tot("paths")),
            "traces_validated_against_impl": tot("crosschecked"),
            "samples": samples or [{"note": "no path completed"}],
            "exhaustive": bool(not args.only and not inconclusive and degraded == 0 and all(r["cap"] is None for r in results)),
            "jobs": len(results),
            "jobs_with_feasible_path": sum(1 for r in results if r["paths"] > 0),
            "assertions_discharged": tot("asserts"),
            "queries": tot("queries"),
            "solver_time_s": round(sum(r["solver_time"] for r in results), 2),
            "cpu_s": round(sum(r["wall"] for r in results), 2),
            "degraded_paths": degraded,
            "degraded_reasons": sorted({d for r in results for d in r["degraded"]})[:10],
            "path_outcomes": outcomes,
            "functions_encoded": sorted(funcs),
            "bounds": (meta.get("bounds") or {}).get(args.tier) if isinstance(meta.get("bounds"), dict) else meta.get("bounds"),
            "outside_claim": meta.get("outside", []),
            "stubs": meta.get("stubs", []),
            "oracle": meta.get("oracle"),
            "solver": "z3 " + _z3v(),
            "known_findings_reproduced": sorted(known_hits),
            "cvc5_rechecked": _sum_cvc5(results),
            "inconclusive": [f"{j}: {i}"[:500] for j, i in inconclusive[:20]],
            "preflight": (pre_res or {}).get("info"),
            "explanation": "bounded symbolic model checking of the real /repo source (symx): every feasible path of every job explored, each assertion discharged by z3 over all values of the job's holes",
        },
        "assumptions": meta.get("assumptions", []) + [
            "CPython semantics as modelled by symx shadow values and shims (validated per path against the un-instrumented code)",
            "z3 is sound",
        ],
        "wall_s": round(wall, 2),
        "violations": len(lines),
    }
    if not args.no_evidence:
        os.makedirs(os.path.join(HERE, "evidence"), exist_ok=True)
        with open(os.path.join(HERE, "evidence", f"{prop}.json"), "w") as f:
            json.dump(ev, f, indent=1, default=str)
    print(
        f"{prop} [{args.tier}] jobs={len(results)} paths={ev['coverage']['states']} decisions={tot('decisions')} queries={tot('queries')} "
        f"solver={ev['coverage']['solver_time_s']}s crosschecked={tot('crosschecked')} degraded={degraded} wall={wall:.1f}s"
    )
    slow = sorted(results, key=lambda r: -r["wall"])[:3]
    print("  slowest jobs: " + ", ".join(f"{r['id']}={r['wall']}s/{r['paths']}p" for r in slow))
    if lines:
        for jid, v, path in lines:
            print(f"  counterexample job={jid} assertion={v['label']} values={json.dumps(v['values'])[:300]}")
            print(f"VIOLATION property={prop} replay={path}")
        return 1
    if inconclusive:
        for j, i in inconclusive[:15]:
            print(f"INCONCLUSIVE {prop} job={j}: {i[:600]}")
        return 2
    print(f"OK {prop}: property held on everything explored")
    return 0


def _sum_cvc5(results):
    out = {}
    for r in results:
        for k, v in r.get("cvc5", {}).items():
            out[k] = out.get(k, 0) + v
    return out


def _z3v():
    import z3

    return z3.get_version_string()


if __name__ == "__main__":
    sys.exit(main())
