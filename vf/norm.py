"""Normalisation of harness outputs to JSON values (under a model in symbolic mode), so that the
symbolic output of a path can be compared with the concrete output of the un-instrumented code."""
import z3

from .context import blob_content


def _ival(t, model):
    v = model.eval(t, model_completion=True)
    return v.as_signed_long() if t.size() == 64 else v.as_long()


def norm(x, model=None):
    """JSON-able value of x; symbolic parts evaluated under `model`."""
    try:
        import symx
        from symx.core import SBool, SInt
        from symx.values import SBlob, SBytes, SChoice, SEnum, SRope, SStr
    except Exception:  # pragma: no cover
        symx = None
    if x is None or isinstance(x, (bool, int, str)):
        return x
    if isinstance(x, float):
        return x
    if isinstance(x, (bytes, bytearray)):
        return "hex:" + bytes(x).hex()
    if isinstance(x, (list, tuple)):
        return [norm(i, model) for i in x]
    if isinstance(x, dict):
        return {str(k): norm(v, model) for k, v in x.items()}
    if isinstance(x, BaseException):
        return ["exc", type(x).__name__]
    if symx is not None:
        if isinstance(x, SInt):
            return _ival(x.t, model)
        if isinstance(x, SBool):
            return z3.is_true(model.eval(x.t, model_completion=True))
        if isinstance(x, SStr):
            return "".join(chr(c if isinstance(c, int) else _ival(c, model)) for c in x.c)
        if isinstance(x, SBytes):
            return "hex:" + bytes((b if isinstance(b, int) else _ival(b.t, model)) & 0xFF for b in x.b).hex()
        if isinstance(x, SBlob):
            return "hex:" + _blob_bytes(x, model).hex()
        if isinstance(x, SRope):
            out = b""
            for s in x.segs:
                if isinstance(s, SBlob):
                    out += _blob_bytes(s, model)
                elif isinstance(s, SBytes):
                    out += bytes((b if isinstance(b, int) else _ival(b.t, model)) & 0xFF for b in s.b)
                else:
                    out += bytes(s)
            return "hex:" + out.hex()
        if isinstance(x, SChoice):
            return norm(x.options[_ival(x.t, model)], model)
        if isinstance(x, SEnum):
            return str(x.members[_ival(x.t, model)])
    if z3.is_expr(x):
        v = model.eval(x, model_completion=True) if model is not None else z3.simplify(x)
        if z3.is_bool(v):
            return z3.is_true(v)
        return v.as_signed_long() if v.size() == 64 else v.as_long()
    import enum

    if isinstance(x, enum.Enum):
        return str(x)
    return repr(x)


def _blob_bytes(b, model):
    from symx.core import SInt

    start = _ival(b.start.t, model) if isinstance(b.start, SInt) else b.start
    length = _ival(b.length.t, model) if isinstance(b.length, SInt) else b.length
    return blob_content(b.name, start + length)[start: start + length]
