"""Path-relative symbolic execution of an oracle.

An oracle written as ordinary code with explicit `decide(cond)` calls is run under the path
condition of the implementation's path: conditions the path condition decides are followed,
undecided ones are explored both ways.  Result: a list of (assumptions, value) cases; the check
asserts Implies(And(assumptions), implementation_output == value) for each."""
import z3


def oracle_cases(cx, fn, limit=256):
    results = []
    work = [[]]
    while work:
        if len(results) > limit:
            raise RuntimeError("oracle case limit exceeded")
        prefix = work.pop()
        trail, assum = [], []

        def decide(cond):
            if isinstance(cond, bool):
                return cond
            i = len(trail)
            if i < len(prefix):
                d, free = prefix[i]
            else:
                imp = _implied(cx, cond, assum)
                if imp is None:
                    d, free = True, True
                    work.append(trail + [(False, True)])
                else:
                    d, free = imp, False
            trail.append((d, free))
            if free:
                assum.append(cond if d else z3.Not(cond))
            return d

        results.append((list(assum), fn(decide)))
    return results


def _implied(cx, cond, assum):
    if not cx.symbolic:
        v = z3.simplify(cond)
        if z3.is_true(v):
            return True
        if z3.is_false(v):
            return False
        raise RuntimeError("non-constant oracle condition in concrete mode")
    v = z3.simplify(cond)
    if z3.is_true(v):
        return True
    if z3.is_false(v):
        return False
    e = cx.engine
    if e.check(*assum, z3.Not(cond)) == z3.unsat:
        return True
    if e.check(*assum, cond) == z3.unsat:
        return False
    return None
