"""Concrete executor: runs a harness job on ordinary Python values against the UN-instrumented
modules of $A816_REPO (no import hook).  Used (a) as a server by the symbolic workers for the
per-path concolic cross-check and for confirming counterexamples, (b) by `--replay`."""
import importlib
import json
import os
import signal
import sys
import traceback


class ConcreteTimeout(BaseException):
    pass


def _alarm(signum, frame):
    raise ConcreteTimeout()


def setup_paths():
    repo = os.environ.get("A816_REPO", "/repo")
    here = os.path.dirname(os.path.dirname(os.path.abspath(__file__)))
    for p in (here, repo):
        if p in sys.path:
            sys.path.remove(p)
    sys.path.insert(0, here)
    sys.path.insert(0, repo)
    sys.dont_write_bytecode = True


def run_concrete(harness_name, spec, values, timeout=20.0):
    """Returns dict(out=..., failed=[labels], skipped=bool, timeout=bool, error=str|None)."""
    import z3

    from vf.context import AssumptionFailed, Ctx
    from vf.norm import norm

    h = importlib.import_module("harness." + harness_name)
    cx = Ctx(False, values)
    res = {"out": None, "failed": [], "skipped": False, "timeout": False, "error": None, "labels": []}
    signal.signal(signal.SIGALRM, _alarm)
    signal.setitimer(signal.ITIMER_REAL, timeout)
    try:
        try:
            out = h.run(spec, cx)
        finally:
            signal.setitimer(signal.ITIMER_REAL, 0)
        res["out"] = norm(out)
        for label, term in h.check(spec, cx, out):
            res["labels"].append(label)
            ok = term if isinstance(term, bool) else z3.is_true(z3.simplify(term))
            if not ok:
                res["failed"].append(label)
        res["values"] = cx.values
    except AssumptionFailed as e:
        res["skipped"] = True
        res["error"] = "assumption: " + str(e)
    except ConcreteTimeout:
        res["timeout"] = True
        hook = getattr(h, "on_timeout", None)
        if hook is not None:
            res["failed"] = list(hook(spec, cx))
    except BaseException as e:  # noqa: BLE001
        res["error"] = "".join(traceback.format_exception_only(type(e), e)).strip() + "\n" + traceback.format_exc()[-1500:]
    return res


def serve():
    setup_paths()
    out = os.fdopen(os.dup(1), "w")
    devnull = open(os.devnull, "w")
    os.dup2(devnull.fileno(), 1)
    sys.stdout = devnull
    import logging

    logging.disable(logging.CRITICAL)
    import warnings

    warnings.simplefilter("ignore")
    for line in sys.stdin:
        line = line.strip()
        if not line:
            continue
        req = json.loads(line)
        res = run_concrete(req["harness"], req["spec"], req["values"], req.get("timeout", 20.0))
        out.write(json.dumps(res) + "\n")
        out.flush()


if __name__ == "__main__":
    serve()
