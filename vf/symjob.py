"""Symbolic execution of one harness job in a worker process."""
import fnmatch
import importlib
import json
import os
import subprocess
import sys
import time
import traceback

_PLAIN = None
_INSTALLED = False


def init_worker():
    """Worker initialiser: install the instrumenting loader before anything of /repo is imported."""
    global _INSTALLED
    if _INSTALLED:
        return
    here = os.path.dirname(os.path.dirname(os.path.abspath(__file__)))
    if here not in sys.path:
        sys.path.insert(0, here)
    import logging
    import warnings

    logging.disable(logging.CRITICAL)
    warnings.simplefilter("ignore")
    import symx

    symx.install()
    _INSTALLED = True


def plain_call(harness, spec, values, timeout=20.0):
    """Run the job concretely in the (persistent) plain-interpreter child of this worker."""
    global _PLAIN
    for attempt in (0, 1):
        if _PLAIN is None or _PLAIN.poll() is not None:
            here = os.path.dirname(os.path.dirname(os.path.abspath(__file__)))
            env = dict(os.environ)
            env["PYTHONPATH"] = here
            _PLAIN = subprocess.Popen(
                [sys.executable, "-m", "vf.plain"], stdin=subprocess.PIPE, stdout=subprocess.PIPE, stderr=subprocess.DEVNULL,
                cwd=here, env=env, text=True, bufsize=1,
            )
        try:
            _PLAIN.stdin.write(json.dumps({"harness": harness, "spec": spec, "values": values, "timeout": timeout}) + "\n")
            _PLAIN.stdin.flush()
            line = _PLAIN.stdout.readline()
            if line:
                return json.loads(line)
        except (BrokenPipeError, OSError):
            pass
        try:
            _PLAIN.kill()
        except Exception:
            pass
        _PLAIN = None
    return {"error": "plain worker died", "out": None, "failed": [], "skipped": False, "timeout": False}


def _kill_plain():
    global _PLAIN
    if _PLAIN is not None:
        try:
            _PLAIN.kill()
            _PLAIN.wait(timeout=5)
        except Exception:
            pass
        _PLAIN = None


def _applicable(known, prop, job_id, label):
    out = []
    for k in known:
        if k.get("status") != "known" or k.get("property") != prop:
            continue
        if not fnmatch.fnmatchcase(job_id, k.get("job", "*")):
            continue
        if not fnmatch.fnmatchcase(label, k.get("label", "*")):
            continue
        out.append(k)
    return out


def run_job(args):
    """args = (harness_name, spec, opts).  Returns a JSON-able result dict."""
    harness_name, spec, opts = args
    init_worker()
    import z3

    import symx
    from symx.core import EngineError, FuelExhausted, PathAbort, Unmodelled
    from vf.context import Ctx
    from vf.norm import norm

    h = importlib.import_module("harness." + harness_name)
    prop = h.PROPERTY
    known = opts.get("known", [])
    res = {
        "id": spec["id"], "paths": 0, "decisions": 0, "queries": 0, "solver_time": 0.0, "crosschecked": 0,
        "asserts": 0, "violations": [], "known_hits": [], "inconclusive": [], "degraded": [], "samples": [],
        "wall": 0.0, "cap": None, "outcomes": {}, "cvc5": {"asked": 0},
    }
    t0 = time.time()
    eng = symx.Engine(timeout_ms=opts.get("solver_timeout_ms", 60000), max_ticks=spec.get("max_ticks", opts.get("max_ticks")))
    symx.set_engine(eng)
    state = {"cx": None}
    xcheck_every = max(1, int(opts.get("xcheck_every", 1)))
    max_viol = opts.get("max_violations", 3)
    ctimeout = float(spec.get("concrete_timeout", opts.get("concrete_timeout", 20.0)))

    def fn():
        cx = Ctx(True, engine=eng)
        state["cx"] = cx
        state["degraded"] = None
        try:
            return h.run(spec, cx)
        except Unmodelled as e:
            state["degraded"] = "unmodelled: " + str(e)[:200]
            return None

    def pcall(values):
        r = plain_call(harness_name, spec, values, ctimeout)
        if opts.get("fresh_plain"):
            _kill_plain()   # histories must not leak from one concrete run into the next
        return r

    def confirm(cx, label, model, degraded=False):
        values = cx.values_of(model)
        r = pcall(values)
        if r.get("error") or r.get("skipped"):
            res["inconclusive"].append(f"concrete run of a model failed ({label}): {r.get('error')}")
            return None
        if degraded:
            if r["failed"]:
                return {"label": r["failed"][0], "values": values, "observed": r["out"], "timeout": r.get("timeout", False)}
            return None
        if label in r["failed"]:
            return {"label": label, "values": values, "observed": r["out"], "timeout": r.get("timeout", False)}
        sym = state.get("sym_out")
        if sym is not None and json.loads(json.dumps(norm(sym, model))) != r["out"]:
            # the shadow-value model differs from the real code on this input: engine limitation,
            # the path is degraded to this concrete run (which satisfies the assertion)
            res["degraded"].append(f"engine mismatch on a counterexample candidate for {label}: {values}"[:400])
            return None
        res["inconclusive"].append(f"counterexample for {label} did not reproduce on the un-instrumented code: {values}")
        return None

    class _Stop(BaseException):
        pass

    def on_path(e, out):
        if res["violations"] and opts.get("stop_on_violation", True):
            raise _Stop()
        cx = state["cx"]
        res["paths"] += 1
        if state["degraded"]:
            # not modelled: this path is checked concretely on a few *different* models of its path
            # condition (each later model must differ from the earlier ones in some hole)
            res["degraded"].append(state["degraded"])
            blocks = []
            # boundary models first: every hole at its smallest / largest admissible value
            bounds = []
            for pick in (0, 1):
                cs = []
                for name in cx.order:
                    kind, t, meta = cx.decl[name]
                    if kind == "int" and meta:
                        cs.append(t == meta[pick])
                    elif kind == "char" and meta:
                        cs.append(t == (meta[0] if pick == 0 else meta[-1]))
                if cs:
                    bounds.append(cs)
            # models that put as many holes as possible on the usual value boundaries (powers of two and their neighbours)
            special = []
            for c in (0, 1, 0x7F, 0x80, 0xFF, 0x100, 0x7FFF, 0x8000, 0xFFFF, 0x10000, 0xFFFFFF, -1, -128, 127, 128):
                cs = []
                for name in cx.order:
                    kind, t, meta = cx.decl[name]
                    if kind in ("int", "char"):
                        if kind == "char" and not 0 <= c <= 255:
                            continue
                        cs.append(t == (c & ((1 << t.size()) - 1)))
                if not cs:
                    continue
                if e.check(*cs) == z3.sat:
                    special.append(cs)
                else:
                    # not all at once: any hole that can take the value, one at a time (first two that can)
                    took = 0
                    for one in cs:
                        if took < 2 and e.check(one) == z3.sat:
                            special.append([one])
                            took += 1
            tries = [b for b in bounds] + special + [None] * int(opts.get("degraded_models", 4))
            for forced in tries:
                if forced is not None:
                    if e.check(*forced) != z3.sat:
                        continue
                elif e.check(*blocks) != z3.sat:
                    break
                m = e.solver.model()
                v = confirm(cx, "*", m, degraded=True)
                if v is not None:
                    if len(res["violations"]) < max_viol:
                        res["violations"].append(v)
                    break
                diff = []
                for name in cx.order:
                    t = cx.decl[name][1]
                    diff.append(t != m.eval(t, model_completion=True))
                if not diff:
                    break
                # prefer models that differ in every hole; fall back to "some hole differs"
                if e.check(*blocks, *diff) == z3.sat:
                    blocks = blocks + diff
                else:
                    blocks = blocks + [z3.Or(*diff)]
            e.model = None
            return
        if not e.guards_hold():
            res["inconclusive"].append("64-bit bound exceeded on a path (integer would leave the modelled range)")
            return
        state["sym_out"] = out
        asserts = h.check(spec, cx, out)
        for label, term in asserts:
            res["asserts"] += 1
            if isinstance(term, bool):
                term = z3.BoolVal(term)
            regions = []
            for k in _applicable(known, prop, spec["id"], label):
                try:
                    regions.append((k, cx.region(k["where"]) if k.get("where") else z3.BoolVal(True)))
                except KeyError:
                    continue
            neg = z3.Not(term)
            if regions:
                R = z3.Or(*[r for _, r in regions])
                q, m = e.decide(neg, z3.Not(R))
            else:
                q, m = e.decide(neg)
            if q == z3.sat:
                if len(res["violations"]) < max_viol:
                    v = confirm(cx, label, m)
                    if v is not None:
                        res["violations"].append(v)
            elif q != z3.unsat:
                res["inconclusive"].append(f"solver unknown on assertion {label}")
            elif opts.get("cvc5") and res["cvc5"]["asked"] < opts.get("cvc5_per_job", 2) and not z3.is_true(z3.simplify(term)):
                from vf.cvc5x import recheck

                extra = [neg] + ([z3.Not(R)] if regions else [])
                c = recheck(list(e.pc), extra)
                res["cvc5"]["asked"] += 1
                res["cvc5"][c] = res["cvc5"].get(c, 0) + 1
                if c == "sat":
                    res["inconclusive"].append(f"SOLVER DISAGREEMENT on assertion {label}: z3 unsat, cvc5 sat")
            for k, r in regions:
                if any(hit["entry"] == k["id"] for hit in res["known_hits"]):
                    continue
                kq, km = e.decide(neg, r)
                if kq == z3.sat:
                    res["known_hits"].append({"entry": k["id"], "values": cx.values_of(km), "label": label})
        oc = out[0] if isinstance(out, (tuple, list)) and out and isinstance(out[0], str) else type(out).__name__
        res["outcomes"][oc] = res["outcomes"].get(oc, 0) + 1
        # concolic cross-check of this path against the un-instrumented code
        if (res["paths"] - 1) % xcheck_every == 0:
            m = e.get_model()
            values = cx.values_of(m)
            sym = norm(out, m)
            r = pcall(values)
            if r.get("error") or r.get("skipped") or r.get("timeout"):
                res["inconclusive"].append(f"cross-check run failed: {r.get('error') or 'timeout'} values={values}")
            elif json.loads(json.dumps(sym)) != r["out"]:
                # the shadow-value model does not reproduce the real code on this path (an engine
                # limitation, e.g. code using a construct the shims do not model): the symbolic verdict
                # of this path is not trusted -- the path is degraded to the concrete run just made
                msg = f"engine mismatch on {values}: sym={json.dumps(sym)[:200]} real={json.dumps(r['out'])[:200]}"
                if r["failed"]:
                    if len(res["violations"]) < max_viol:
                        res["violations"].append({"label": r["failed"][0], "values": values, "observed": r["out"], "timeout": False})
                else:
                    res["degraded"].append(msg[:400])
                res["mismatches"] = res.get("mismatches", 0) + 1
                if res["mismatches"] > opts.get("max_mismatches", 25):
                    res["inconclusive"].append("more than 25 paths where the symbolic model differs from the real code: " + msg)
            else:
                res["crosschecked"] += 1
            if len(res["samples"]) < 2:
                res["samples"].append({"job": spec["id"], "model": values, "output": _short(sym), "assertions": [a for a, _ in asserts]})

    try:
        deadline = t0 + float(spec.get("deadline_s", opts.get("deadline_s", 300)))
        cap = eng.explore(fn, on_path, max_paths=spec.get("max_paths", opts.get("max_paths")), deadline=deadline)
        if cap:
            res["cap"] = cap
            res["inconclusive"].append(f"exploration cap hit: {cap} after {eng.paths} paths")
    except _Stop:
        res["cap"] = "stopped after first confirmed violation"
    except EngineError as e:
        res["inconclusive"].append("engine error: " + str(e))
    except FuelExhausted:
        res["inconclusive"].append("tick budget exhausted outside the harness")
    except BaseException as e:  # noqa: BLE001
        res["inconclusive"].append("harness crashed: " + "".join(traceback.format_exception_only(type(e), e)).strip() + " | " + traceback.format_exc()[-1200:])
    if res["paths"] == 0 and not res["inconclusive"]:
        res["inconclusive"].append("vacuous: no feasible path")
    res["decisions"] = eng.decisions_total
    res["queries"] = eng.queries
    res["solver_time"] = round(eng.solver_time, 3)
    res["wall"] = round(time.time() - t0, 3)
    res["functions"] = sorted(symx.FUNCS)
    return res


def _short(x, n=400):
    s = json.dumps(x)
    return x if len(s) <= n else s[:n] + "..."
